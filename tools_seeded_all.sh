#!/bin/bash
# runs every seeded change and every revert/hand mutant against the check that is recorded as detecting it; one line each.
cd /verif
for d in seeded/*/; do id=$(basename $d); p=$(python3 -c "import json;m=json.load(open('$d/meta.json'));print(m.get('detected_by_property') or ('C11' if m['id']=='C04-s4' else m['property']))"); [ "$p" = "-" ] && { echo "$id - skipped (recorded as not detected)"; continue; }; r=$(./tools_mutant.sh $d/patch.diff $p ${1:-8000} | tail -1); echo "$id $p $r"; done
for f in mutants/*.diff; do n=$(basename $f .diff); p=$(echo $n | grep -o 'C[0-9][0-9]' | head -1); r=$(./tools_mutant.sh $f $p ${1:-8000} | tail -1); echo "$n $p $r"; done
