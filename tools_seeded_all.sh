#!/bin/bash
# runs every seeded change and every revert/hand mutant against the check of its property; prints one line each.
cd /verif
for d in seeded/*/; do id=$(basename $d); p=${id%%-*}; r=$(./tools_mutant.sh $d/patch.diff $p ${1:-4000} | tail -1); echo "$id $p $r"; done
for f in mutants/*.diff; do n=$(basename $f .diff); p=$(echo $n | grep -o 'C[0-9][0-9]' | head -1); r=$(./tools_mutant.sh $f $p ${1:-4000} | tail -1); echo "$n $p $r"; done
