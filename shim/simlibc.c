/*
 * simlibc — LD_PRELOAD seam at the libc boundary (DESIGN.md S5-S10).
 *
 *  - entropy:   getrandom() and syscall(SYS_getrandom) return bytes of a seeded stream
 *               (env VERIF_ENTROPY=<u64> or simlibc_set_entropy()); without a seed they pass through.
 *  - readdir:   readdir64()/readdir() return the entries of a directory in an order permuted by
 *               VERIF_READDIR=<u64> (0/unset: untouched).
 *  - file ops:  open, openat, creat, write, pwrite, writev, close, rename(at,at2), fsync, fdatasync, unlink(at), ftruncate, link(at)
 *               on paths below SIMLIBC_ROOT are traced (SIMLIBC_TRACE=<file>) and can be made to fail,
 *               be short, be interrupted or kill the process according to SIMLIBC_PLAN=<file>.
 *
 * Plan file: one rule per line
 *     <op> <path-suffix|*> <occurrence|0=every> <action> [args]
 *   op      : openw openr write close rename fsync unlink truncate link any
 *   action  : err <errno>            fail with errno, nothing done
 *             partial <k> <errno>    (write) really write k bytes and return k; the next write on the fd fails with errno
 *                                    (k = 0: fail at once)
 *             short <c>              (write) accept at most c bytes
 *             eintr <n>              fail n times with EINTR, then proceed
 *             kill                   _exit(137) before the operation
 *             killafter <k>          (write) really write k bytes, then _exit(137)
 * Occurrences are counted per (rule), over operations whose path ends with the suffix.
 */
#define _GNU_SOURCE
#include <dirent.h>
#include <dlfcn.h>
#include <errno.h>
#include <fcntl.h>
#include <limits.h>
#include <pthread.h>
#include <stdarg.h>
#include <stdint.h>
#include <stdio.h>
#include <stdlib.h>
#include <string.h>
#include <sys/stat.h>
#include <sys/syscall.h>
#include <sys/types.h>
#include <sys/uio.h>
#include <unistd.h>

static pthread_mutex_t mu = PTHREAD_MUTEX_INITIALIZER;
static __thread int inside = 0; /* re-entrancy guard: our own libc calls are not intercepted */

/* ------------------------------------------------------------------ real symbols */
#define REAL(ret, name, ...)                                  \
    static ret (*real_##name)(__VA_ARGS__) = NULL;            \
    static void load_##name(void) {                           \
        if (!real_##name) real_##name = dlsym(RTLD_NEXT, #name); \
    }

REAL(ssize_t, getrandom, void *, size_t, unsigned)
REAL(long, syscall, long, ...)
REAL(struct dirent64 *, readdir64, DIR *)
REAL(struct dirent *, readdir, DIR *)
REAL(int, closedir, DIR *)
REAL(int, open64, const char *, int, ...)
REAL(int, open, const char *, int, ...)
REAL(int, openat, int, const char *, int, ...)
REAL(int, openat64, int, const char *, int, ...)
REAL(int, creat, const char *, mode_t)
REAL(int, creat64, const char *, mode_t)
REAL(ssize_t, write, int, const void *, size_t)
REAL(ssize_t, pwrite64, int, const void *, size_t, off64_t)
REAL(ssize_t, pwrite, int, const void *, size_t, off_t)
REAL(ssize_t, writev, int, const struct iovec *, int)
REAL(int, close, int)
REAL(int, rename, const char *, const char *)
REAL(int, renameat, int, const char *, int, const char *)
REAL(int, renameat2, int, const char *, int, const char *, unsigned)
REAL(int, fsync, int)
REAL(int, fdatasync, int)
REAL(int, unlink, const char *)
REAL(int, unlinkat, int, const char *, int)
REAL(int, ftruncate64, int, off64_t)
REAL(int, ftruncate, int, off_t)
REAL(int, truncate, const char *, off_t)
REAL(int, truncate64, const char *, off64_t)
REAL(int, link, const char *, const char *)
REAL(int, linkat, int, const char *, int, const char *, int)
REAL(int, symlink, const char *, const char *)
REAL(ssize_t, copy_file_range, int, off64_t *, int, off64_t *, size_t, unsigned)
REAL(ssize_t, sendfile64, int, int, off64_t *, size_t)
REAL(int, mkdir, const char *, mode_t)
REAL(int, rmdir, const char *)

/* ------------------------------------------------------------------ entropy */
static int entropy_on = -1; /* -1 unknown, 0 off, 1 on */
static uint64_t entropy_state = 0;
static uint64_t entropy_draws = 0;

static uint64_t splitmix(uint64_t *x) {
    uint64_t z = (*x += 0x9E3779B97F4A7C15ULL);
    z = (z ^ (z >> 30)) * 0xBF58476D1CE4E5B9ULL;
    z = (z ^ (z >> 27)) * 0x94D049BB133111EBULL;
    return z ^ (z >> 31);
}

static void entropy_init(void) {
    if (entropy_on != -1) return;
    const char *e = getenv("VERIF_ENTROPY");
    if (e && *e) {
        entropy_state = strtoull(e, NULL, 10);
        entropy_on = 1;
    } else {
        entropy_on = 0;
    }
}

/* exported: the in-process simulator sets the stream before each run */
void simlibc_set_entropy(uint64_t seed) {
    pthread_mutex_lock(&mu);
    entropy_state = seed;
    entropy_on = 1;
    entropy_draws = 0;
    pthread_mutex_unlock(&mu);
}

void simlibc_unset_entropy(void) {
    pthread_mutex_lock(&mu);
    entropy_on = 0;
    pthread_mutex_unlock(&mu);
}

uint64_t simlibc_entropy_draws(void) { return entropy_draws; }

static int fill_entropy(void *buf, size_t len) {
    pthread_mutex_lock(&mu);
    entropy_init();
    if (entropy_on != 1) {
        pthread_mutex_unlock(&mu);
        return 0;
    }
    unsigned char *p = buf;
    size_t i = 0;
    while (i < len) {
        uint64_t v = splitmix(&entropy_state);
        for (int b = 0; b < 8 && i < len; b++, i++) p[i] = (unsigned char)(v >> (8 * b));
    }
    entropy_draws++;
    pthread_mutex_unlock(&mu);
    return 1;
}

ssize_t getrandom(void *buf, size_t len, unsigned flags) {
    if (!inside && fill_entropy(buf, len)) return (ssize_t)len;
    load_getrandom();
    if (real_getrandom) return real_getrandom(buf, len, flags);
    load_syscall();
    return real_syscall(SYS_getrandom, buf, len, flags);
}

long syscall(long number, ...) {
    va_list ap;
    va_start(ap, number);
    long a = va_arg(ap, long), b = va_arg(ap, long), c = va_arg(ap, long), d = va_arg(ap, long), e = va_arg(ap, long),
         f = va_arg(ap, long);
    va_end(ap);
    if (number == SYS_getrandom && !inside) {
        if (fill_entropy((void *)a, (size_t)b)) return b;
    }
    load_syscall();
    return real_syscall(number, a, b, c, d, e, f);
}

/* ------------------------------------------------------------------ unscheduled ("wild") threads
 * The simulator owns the threads the router spawns through iwes::verif::spawn. A changed router may start
 * threads elsewhere (std::thread::spawn in a handler, a background indexer). Those cannot be scheduled, but
 * they can be seen and perturbed: a thread created by a server thread without the simulator having announced
 * it is counted, starts after a seeded delay, and the simulator waits for it before it calls the system idle.
 */
static __thread int t_server = 0;
static volatile int expect_spawn = 0;
static volatile long wild_live = 0, wild_total = 0;
static uint64_t wild_seed = 1;
static long wild_max_delay_us = 0;

void simlibc_mark_server_thread(int on) { t_server = on; }
void simlibc_expect_spawn(void) { expect_spawn = 1; }
void simlibc_wild_config(uint64_t seed, long max_delay_us) {
    wild_seed = seed;
    wild_max_delay_us = max_delay_us;
    wild_total = 0;
}
long simlibc_wild_live(void) { return wild_live; }
long simlibc_wild_total(void) { return wild_total; }

struct thread_wrap {
    void *(*start)(void *);
    void *arg;
    long delay_us;
    int wild;
};

static void *thread_trampoline(void *p) {
    struct thread_wrap w = *(struct thread_wrap *)p;
    free(p);
    t_server = 1;
    if (w.wild && w.delay_us > 0) usleep((useconds_t)w.delay_us);
    void *r = w.start(w.arg);
    if (w.wild) __sync_fetch_and_sub(&wild_live, 1);
    return r;
}

static int (*real_pthread_create)(pthread_t *, const pthread_attr_t *, void *(*)(void *), void *) = NULL;

int pthread_create(pthread_t *thread, const pthread_attr_t *attr, void *(*start)(void *), void *arg) {
    if (!real_pthread_create) real_pthread_create = dlsym(RTLD_NEXT, "pthread_create");
    if (!t_server) return real_pthread_create(thread, attr, start, arg);
    struct thread_wrap *w = malloc(sizeof *w);
    if (!w) return real_pthread_create(thread, attr, start, arg);
    w->start = start;
    w->arg = arg;
    w->delay_us = 0;
    w->wild = 1;
    if (expect_spawn) {
        expect_spawn = 0;
        w->wild = 0;
    } else {
        __sync_fetch_and_add(&wild_live, 1);
        __sync_fetch_and_add(&wild_total, 1);
        if (wild_max_delay_us > 0) {
            pthread_mutex_lock(&mu);
            w->delay_us = (long)(splitmix(&wild_seed) % (uint64_t)(wild_max_delay_us + 1));
            pthread_mutex_unlock(&mu);
        }
    }
    int r = real_pthread_create(thread, attr, thread_trampoline, w);
    if (r != 0) {
        if (w->wild) __sync_fetch_and_sub(&wild_live, 1);
        free(w);
    }
    return r;
}

/* ------------------------------------------------------------------ configuration of the file seam */
static int cfg_loaded = 0;
static char root[PATH_MAX] = "";
static size_t root_len = 0;
static int trace_fd = -1;
static uint64_t readdir_seed = 0;

#define MAX_RULES 64
struct rule {
    char op[16];
    char suffix[256];
    long occurrence; /* 0 = every */
    char action[16];
    long a1, a2;
    long seen;
    long eintr_left;
};
static struct rule rules[MAX_RULES];
static int nrules = 0;

#define MAX_FDS 4096
static char *fd_path[MAX_FDS];    /* path of fds opened below root */
static int fd_pending_err[MAX_FDS]; /* errno to return on the next write (partial) */

static void trace(const char *fmt, ...) {
    if (trace_fd < 0) return;
    char line[PATH_MAX + 256];
    va_list ap;
    va_start(ap, fmt);
    int n = vsnprintf(line, sizeof line - 1, fmt, ap);
    va_end(ap);
    if (n < 0) return;
    if ((size_t)n > sizeof line - 2) n = sizeof line - 2;
    line[n++] = '\n';
    load_write();
    ssize_t r = real_write(trace_fd, line, (size_t)n);
    (void)r;
}

static pthread_once_t cfg_once = PTHREAD_ONCE_INIT;
static void load_cfg_once(void);
static void load_cfg(void) {
    if (cfg_loaded) return;
    pthread_once(&cfg_once, load_cfg_once);
}
static void load_cfg_once(void) {
    inside++;
    const char *r = getenv("SIMLIBC_ROOT");
    if (r && *r) {
        if (!realpath(r, root)) strncpy(root, r, sizeof root - 1);
        root_len = strlen(root);
    }
    const char *rs = getenv("VERIF_READDIR");
    if (rs && *rs) readdir_seed = strtoull(rs, NULL, 10);
    const char *t = getenv("SIMLIBC_TRACE");
    if (t && *t) {
        load_open64();
        trace_fd = real_open64(t, O_WRONLY | O_CREAT | O_APPEND | O_CLOEXEC, 0644);
    }
    const char *p = getenv("SIMLIBC_PLAN");
    if (p && *p) {
        FILE *f = fopen(p, "r");
        if (f) {
            char line[512];
            while (fgets(line, sizeof line, f) && nrules < MAX_RULES) {
                struct rule *ru = &rules[nrules];
                memset(ru, 0, sizeof *ru);
                int n = sscanf(line, "%15s %255s %ld %15s %ld %ld", ru->op, ru->suffix, &ru->occurrence, ru->action, &ru->a1, &ru->a2);
                for (char *c = ru->suffix; *c; c++)
                    if (*c == '\x01') *c = ' '; /* blanks in paths are written as 0x01 in the plan file */
                if (n >= 4 && ru->op[0] != '#') {
                    if (!strcmp(ru->action, "eintr")) ru->eintr_left = ru->a1;
                    nrules++;
                }
            }
            fclose(f);
        }
    }
    inside--;
    cfg_loaded = 1;
}

static int under_root(const char *abs) {
    return root_len > 0 && !strncmp(abs, root, root_len) && (abs[root_len] == '/' || abs[root_len] == 0);
}

/* absolute, not symlink-resolved, path for (dirfd, path) */
static int abs_path(int dirfd, const char *path, char *out) {
    if (!path) return -1;
    if (path[0] == '/') {
        snprintf(out, PATH_MAX, "%s", path);
        return 0;
    }
    char base[PATH_MAX];
    if (dirfd == AT_FDCWD) {
        if (!getcwd(base, sizeof base)) return -1;
    } else {
        char link[64];
        snprintf(link, sizeof link, "/proc/self/fd/%d", dirfd);
        ssize_t n = readlink(link, base, sizeof base - 1);
        if (n < 0) return -1;
        base[n] = 0;
    }
    snprintf(out, PATH_MAX, "%s/%s", base, path);
    return 0;
}

static const char *rel(const char *abs) { return abs[root_len] == '/' ? abs + root_len + 1 : abs + root_len; }

static int suffix_match(const char *relpath, const char *suffix) {
    if (!strcmp(suffix, "*")) return 1;
    size_t lp = strlen(relpath), ls = strlen(suffix);
    if (ls > lp) return 0;
    if (strcmp(relpath + lp - ls, suffix)) return 0;
    return lp == ls || relpath[lp - ls - 1] == '/';
}

enum { ACT_NONE, ACT_ERR, ACT_PARTIAL, ACT_SHORT, ACT_EINTR, ACT_KILL, ACT_KILLAFTER };
struct decision {
    int act;
    long a1, a2;
};

/* decide what happens to operation `op` on relative path `rp` (mutex held) */
static struct decision decide(const char *op, const char *rp) {
    struct decision d = {ACT_NONE, 0, 0};
    for (int i = 0; i < nrules; i++) {
        struct rule *r = &rules[i];
        if (strcmp(r->op, op) && strcmp(r->op, "any")) continue;
        if (!suffix_match(rp, r->suffix)) continue;
        if (!strcmp(r->action, "eintr")) {
            /* occurrence n: the n-th matching op is interrupted a1 times (a retry is not a new occurrence) */
            long target = r->occurrence == 0 ? 1 : r->occurrence;
            if (r->eintr_left > 0 && r->seen + 1 == target) {
                r->eintr_left--;
                d.act = ACT_EINTR;
                return d;
            }
            r->seen++;
            continue;
        }
        r->seen++;
        if (r->occurrence != 0 && r->seen != r->occurrence) continue;
        if (!strcmp(r->action, "err")) d.act = ACT_ERR;
        else if (!strcmp(r->action, "partial")) d.act = ACT_PARTIAL;
        else if (!strcmp(r->action, "short")) d.act = ACT_SHORT;
        else if (!strcmp(r->action, "kill")) d.act = ACT_KILL;
        else if (!strcmp(r->action, "killafter")) d.act = ACT_KILLAFTER;
        d.a1 = r->a1;
        d.a2 = r->a2;
        return d;
    }
    return d;
}

static void die(void) {
    trace("KILL");
    _exit(137);
}

/* ------------------------------------------------------------------ open family */
static int open_common(int which, int dirfd, const char *path, int flags, mode_t mode) {
    load_open64();
    load_open();
    load_openat();
    load_openat64();
    int call_real(void) {
        switch (which) {
            case 0: return real_open64(path, flags, mode);
            case 1: return real_open(path, flags, mode);
            case 2: return real_openat(dirfd, path, flags, mode);
            default: return real_openat64(dirfd, path, flags, mode);
        }
    }
    if (inside) return call_real();
    load_cfg();
    char abs[PATH_MAX];
    if (root_len == 0 || abs_path(dirfd, path, abs) != 0 || !under_root(abs)) return call_real();
    int writing = (flags & O_ACCMODE) != O_RDONLY || (flags & (O_CREAT | O_TRUNC));
    int is_dir = (flags & O_DIRECTORY) != 0;
    const char *op = writing ? "openw" : "openr";
    pthread_mutex_lock(&mu);
    struct decision d = is_dir ? (struct decision){ACT_NONE, 0, 0} : decide(op, rel(abs));
    pthread_mutex_unlock(&mu);
    if (d.act == ACT_KILL) {
        trace("%s %s flags=%#x -> kill", op, rel(abs), flags);
        die();
    }
    if (d.act == ACT_ERR) {
        trace("%s %s flags=%#x -> err %ld", op, rel(abs), flags, d.a1);
        errno = (int)d.a1;
        return -1;
    }
    if (d.act == ACT_EINTR) {
        trace("%s %s flags=%#x -> eintr", op, rel(abs), flags);
        errno = EINTR;
        return -1;
    }
    int fd = call_real();
    int e = errno;
    if (!is_dir) trace("%s %s flags=%#x -> %d", op, rel(abs), flags, fd);
    if (fd >= 0 && fd < MAX_FDS && !is_dir) {
        pthread_mutex_lock(&mu);
        free(fd_path[fd]);
        fd_path[fd] = strdup(rel(abs));
        fd_pending_err[fd] = 0;
        pthread_mutex_unlock(&mu);
    }
    errno = e;
    return fd;
}

int open64(const char *path, int flags, ...) {
    mode_t mode = 0;
    if (flags & (O_CREAT | O_TMPFILE)) {
        va_list ap;
        va_start(ap, flags);
        mode = va_arg(ap, mode_t);
        va_end(ap);
    }
    return open_common(0, AT_FDCWD, path, flags, mode);
}
int open(const char *path, int flags, ...) {
    mode_t mode = 0;
    if (flags & (O_CREAT | O_TMPFILE)) {
        va_list ap;
        va_start(ap, flags);
        mode = va_arg(ap, mode_t);
        va_end(ap);
    }
    return open_common(1, AT_FDCWD, path, flags, mode);
}
int openat(int dirfd, const char *path, int flags, ...) {
    mode_t mode = 0;
    if (flags & (O_CREAT | O_TMPFILE)) {
        va_list ap;
        va_start(ap, flags);
        mode = va_arg(ap, mode_t);
        va_end(ap);
    }
    return open_common(2, dirfd, path, flags, mode);
}
int openat64(int dirfd, const char *path, int flags, ...) {
    mode_t mode = 0;
    if (flags & (O_CREAT | O_TMPFILE)) {
        va_list ap;
        va_start(ap, flags);
        mode = va_arg(ap, mode_t);
        va_end(ap);
    }
    return open_common(3, dirfd, path, flags, mode);
}
int creat(const char *path, mode_t mode) { return open_common(1, AT_FDCWD, path, O_CREAT | O_WRONLY | O_TRUNC, mode); }
int creat64(const char *path, mode_t mode) { return open_common(0, AT_FDCWD, path, O_CREAT | O_WRONLY | O_TRUNC, mode); }

/* ------------------------------------------------------------------ write family */
static char *tracked(int fd) {
    if (fd < 0 || fd >= MAX_FDS) return NULL;
    return fd_path[fd];
}

static ssize_t write_common(int fd, const void *buf, size_t len, int positional, off64_t off) {
    load_write();
    load_pwrite64();
    ssize_t call_real(size_t n) { return positional ? real_pwrite64(fd, buf, n, off) : real_write(fd, buf, n); }
    if (inside || fd == trace_fd) return call_real(len);
    load_cfg();
    pthread_mutex_lock(&mu);
    char *p = tracked(fd);
    char rp[PATH_MAX];
    if (p) snprintf(rp, sizeof rp, "%s", p);
    int pend = p ? fd_pending_err[fd] : 0;
    struct decision d = {ACT_NONE, 0, 0};
    if (p && !pend) d = decide("write", rp);
    pthread_mutex_unlock(&mu);
    if (!p) return call_real(len);
    if (pend) {
        trace("write %s len=%zu -> pending err %d", rp, len, pend);
        errno = pend;
        return -1;
    }
    switch (d.act) {
        case ACT_KILL:
            trace("write %s len=%zu -> kill", rp, len);
            die();
            break;
        case ACT_KILLAFTER: {
            size_t k = (size_t)d.a1 < len ? (size_t)d.a1 : len;
            if (k > 0) {
                ssize_t r = call_real(k);
                (void)r;
            }
            trace("write %s len=%zu -> killafter %zu", rp, len, k);
            die();
            break;
        }
        case ACT_ERR:
            trace("write %s len=%zu -> err %ld", rp, len, d.a1);
            errno = (int)d.a1;
            return -1;
        case ACT_EINTR:
            trace("write %s len=%zu -> eintr", rp, len);
            errno = EINTR;
            return -1;
        case ACT_PARTIAL: {
            size_t k = (size_t)d.a1 < len ? (size_t)d.a1 : len;
            if (k == 0 || k == len) {
                /* k == len cannot be a partial write of this call: fail it outright when k==0, otherwise
                   let it through and fail the next one */
                if (k == 0) {
                    trace("write %s len=%zu -> err %ld (partial 0)", rp, len, d.a2);
                    errno = (int)d.a2;
                    return -1;
                }
            }
            ssize_t r = call_real(k);
            trace("write %s len=%zu -> partial %zd then err %ld", rp, len, r, d.a2);
            pthread_mutex_lock(&mu);
            if (fd < MAX_FDS) fd_pending_err[fd] = (int)d.a2;
            pthread_mutex_unlock(&mu);
            return r;
        }
        case ACT_SHORT: {
            size_t k = (size_t)d.a1 < len ? (size_t)d.a1 : len;
            if (k == 0) k = 1;
            ssize_t r = call_real(k);
            trace("write %s len=%zu -> short %zd", rp, len, r);
            return r;
        }
        default: break;
    }
    ssize_t r = call_real(len);
    int e = errno;
    trace("write %s len=%zu -> %zd", rp, len, r);
    errno = e;
    return r;
}

ssize_t write(int fd, const void *buf, size_t len) { return write_common(fd, buf, len, 0, 0); }
ssize_t pwrite64(int fd, const void *buf, size_t len, off64_t off) { return write_common(fd, buf, len, 1, off); }
ssize_t pwrite(int fd, const void *buf, size_t len, off_t off) { return write_common(fd, buf, len, 1, off); }
ssize_t writev(int fd, const struct iovec *iov, int cnt) {
    load_writev();
    if (inside || !tracked(fd)) return real_writev(fd, iov, cnt);
    /* tracked file: degrade to a write of the first non-empty vector (legal short write) */
    for (int i = 0; i < cnt; i++)
        if (iov[i].iov_len > 0) return write_common(fd, iov[i].iov_base, iov[i].iov_len, 0, 0);
    return 0;
}

/* ------------------------------------------------------------------ simple fd ops */
static int fd_op(const char *op, int fd, int (*realf)(int)) {
    if (inside) return realf(fd);
    load_cfg();
    pthread_mutex_lock(&mu);
    char *p = tracked(fd);
    char rp[PATH_MAX];
    struct decision d = {ACT_NONE, 0, 0};
    if (p) {
        snprintf(rp, sizeof rp, "%s", p);
        d = decide(op, rp);
        if (!strcmp(op, "close")) {
            free(fd_path[fd]);
            fd_path[fd] = NULL;
            fd_pending_err[fd] = 0;
        }
    }
    pthread_mutex_unlock(&mu);
    if (!p) return realf(fd);
    if (d.act == ACT_KILL) {
        trace("%s %s -> kill", op, rp);
        die();
    }
    if (d.act == ACT_ERR) {
        trace("%s %s -> err %ld", op, rp, d.a1);
        if (!strcmp(op, "close")) realf(fd); /* the descriptor is released even when close reports an error */
        errno = (int)d.a1;
        return -1;
    }
    if (d.act == ACT_EINTR && strcmp(op, "close")) {
        trace("%s %s -> eintr", op, rp);
        errno = EINTR;
        return -1;
    }
    int r = realf(fd);
    int e = errno;
    trace("%s %s -> %d", op, rp, r);
    errno = e;
    return r;
}

int close(int fd) {
    load_close();
    if (fd == trace_fd && fd >= 0) return 0; /* keep the trace open */
    return fd_op("close", fd, real_close);
}
int fsync(int fd) {
    load_fsync();
    return fd_op("fsync", fd, real_fsync);
}
int fdatasync(int fd) {
    load_fdatasync();
    return fd_op("fsync", fd, real_fdatasync);
}

static int trunc_fd(int fd, off64_t len) {
    load_ftruncate64();
    if (inside) return real_ftruncate64(fd, len);
    load_cfg();
    pthread_mutex_lock(&mu);
    char *p = tracked(fd);
    char rp[PATH_MAX];
    struct decision d = {ACT_NONE, 0, 0};
    if (p) {
        snprintf(rp, sizeof rp, "%s", p);
        d = decide("truncate", rp);
    }
    pthread_mutex_unlock(&mu);
    if (!p) return real_ftruncate64(fd, len);
    if (d.act == ACT_KILL) {
        trace("truncate %s -> kill", rp);
        die();
    }
    if (d.act == ACT_ERR) {
        trace("truncate %s -> err %ld", rp, d.a1);
        errno = (int)d.a1;
        return -1;
    }
    int r = real_ftruncate64(fd, len);
    int e = errno;
    trace("truncate %s len=%lld -> %d", rp, (long long)len, r);
    errno = e;
    return r;
}
int ftruncate64(int fd, off64_t len) { return trunc_fd(fd, len); }
int ftruncate(int fd, off_t len) { return trunc_fd(fd, len); }

/* ------------------------------------------------------------------ path ops */
/* returns 1 if the op was decided (result in *res), 0 to proceed */
static int path_gate(const char *op, int dirfd, const char *path, char *abs, int *res) {
    if (inside) return 0;
    load_cfg();
    if (root_len == 0 || abs_path(dirfd, path, abs) != 0 || !under_root(abs)) {
        abs[0] = 0;
        return 0;
    }
    pthread_mutex_lock(&mu);
    struct decision d = decide(op, rel(abs));
    pthread_mutex_unlock(&mu);
    if (d.act == ACT_KILL) {
        trace("%s %s -> kill", op, rel(abs));
        die();
    }
    if (d.act == ACT_ERR) {
        trace("%s %s -> err %ld", op, rel(abs), d.a1);
        errno = (int)d.a1;
        *res = -1;
        return 1;
    }
    if (d.act == ACT_EINTR) {
        trace("%s %s -> eintr", op, rel(abs));
        errno = EINTR;
        *res = -1;
        return 1;
    }
    return 0;
}

static int rename_common(int which, int od, const char *o, int nd, const char *n, unsigned flags) {
    load_rename();
    load_renameat();
    load_renameat2();
    int call_real(void) {
        switch (which) {
            case 0: return real_rename(o, n);
            case 1: return real_renameat(od, o, nd, n);
            default: return real_renameat2(od, o, nd, n, flags);
        }
    }
    char abs_new[PATH_MAX], abs_old[PATH_MAX];
    int res;
    /* keyed by the destination: that is the note being replaced */
    if (path_gate("rename", nd, n, abs_new, &res)) return res;
    int r = call_real();
    int e = errno;
    if (!inside && abs_new[0]) {
        if (abs_path(od, o, abs_old) != 0) abs_old[0] = 0;
        trace("rename %s from=%s -> %d", rel(abs_new), under_root(abs_old) ? rel(abs_old) : abs_old, r);
    }
    errno = e;
    return r;
}
int rename(const char *o, const char *n) { return rename_common(0, AT_FDCWD, o, AT_FDCWD, n, 0); }
int renameat(int od, const char *o, int nd, const char *n) { return rename_common(1, od, o, nd, n, 0); }
int renameat2(int od, const char *o, int nd, const char *n, unsigned flags) { return rename_common(2, od, o, nd, n, flags); }

int unlink(const char *path) {
    load_unlink();
    char abs[PATH_MAX];
    int res;
    if (path_gate("unlink", AT_FDCWD, path, abs, &res)) return res;
    int r = real_unlink(path);
    int e = errno;
    if (!inside && abs[0]) trace("unlink %s -> %d", rel(abs), r);
    errno = e;
    return r;
}
int unlinkat(int dirfd, const char *path, int flags) {
    load_unlinkat();
    char abs[PATH_MAX];
    int res;
    if (path_gate("unlink", dirfd, path, abs, &res)) return res;
    int r = real_unlinkat(dirfd, path, flags);
    int e = errno;
    if (!inside && abs[0]) trace("unlink %s -> %d", rel(abs), r);
    errno = e;
    return r;
}
int truncate(const char *path, off_t len) {
    load_truncate();
    char abs[PATH_MAX];
    int res;
    if (path_gate("truncate", AT_FDCWD, path, abs, &res)) return res;
    int r = real_truncate(path, len);
    int e = errno;
    if (!inside && abs[0]) trace("truncate %s len=%lld -> %d", rel(abs), (long long)len, r);
    errno = e;
    return r;
}
int truncate64(const char *path, off64_t len) {
    load_truncate64();
    char abs[PATH_MAX];
    int res;
    if (path_gate("truncate", AT_FDCWD, path, abs, &res)) return res;
    int r = real_truncate64(path, len);
    int e = errno;
    if (!inside && abs[0]) trace("truncate %s len=%lld -> %d", rel(abs), (long long)len, r);
    errno = e;
    return r;
}
int link(const char *o, const char *n) {
    load_link();
    char abs[PATH_MAX];
    int res;
    if (path_gate("link", AT_FDCWD, n, abs, &res)) return res;
    int r = real_link(o, n);
    int e = errno;
    if (!inside && abs[0]) trace("link %s -> %d", rel(abs), r);
    errno = e;
    return r;
}
int linkat(int od, const char *o, int nd, const char *n, int flags) {
    load_linkat();
    char abs[PATH_MAX];
    int res;
    if (path_gate("link", nd, n, abs, &res)) return res;
    int r = real_linkat(od, o, nd, n, flags);
    int e = errno;
    if (!inside && abs[0]) trace("link %s -> %d", rel(abs), r);
    errno = e;
    return r;
}
int symlink(const char *o, const char *n) {
    load_symlink();
    char abs[PATH_MAX];
    int res;
    if (path_gate("link", AT_FDCWD, n, abs, &res)) return res;
    int r = real_symlink(o, n);
    int e = errno;
    if (!inside && abs[0]) trace("symlink %s -> %d", rel(abs), r);
    errno = e;
    return r;
}
int mkdir(const char *path, mode_t mode) {
    load_mkdir();
    char abs[PATH_MAX];
    int r = real_mkdir(path, mode);
    int e = errno;
    if (!inside) {
        load_cfg();
        if (root_len && abs_path(AT_FDCWD, path, abs) == 0 && under_root(abs)) trace("mkdir %s -> %d", rel(abs), r);
    }
    errno = e;
    return r;
}
int rmdir(const char *path) {
    load_rmdir();
    char abs[PATH_MAX];
    int r = real_rmdir(path);
    int e = errno;
    if (!inside) {
        load_cfg();
        if (root_len && abs_path(AT_FDCWD, path, abs) == 0 && under_root(abs)) trace("rmdir %s -> %d", rel(abs), r);
    }
    errno = e;
    return r;
}

/* data-moving calls that bypass write(): traced so that a write phase that uses them is visible */
ssize_t copy_file_range(int fi, off64_t *oi, int fo, off64_t *oo, size_t len, unsigned flags) {
    load_copy_file_range();
    if (!inside && tracked(fo)) {
        trace("copy_file_range %s len=%zu -> ENOSYS", tracked(fo), len);
        errno = ENOSYS; /* force the caller's read/write fallback, which the plan can reach */
        return -1;
    }
    return real_copy_file_range(fi, oi, fo, oo, len, flags);
}
ssize_t sendfile64(int out, int in, off64_t *off, size_t len) {
    load_sendfile64();
    if (!inside && tracked(out)) {
        trace("sendfile %s len=%zu -> EINVAL", tracked(out), len);
        errno = EINVAL;
        return -1;
    }
    return real_sendfile64(out, in, off, len);
}

/* ------------------------------------------------------------------ readdir permutation */
struct dirbuf {
    DIR *dir;
    struct dirent64 *ents;
    int n, next;
};
#define MAX_DIRS 256
static struct dirbuf dirs[MAX_DIRS];

static int cmp_name(const void *a, const void *b) {
    return strcmp(((const struct dirent64 *)a)->d_name, ((const struct dirent64 *)b)->d_name);
}

static struct dirbuf *dirbuf_for(DIR *d) {
    for (int i = 0; i < MAX_DIRS; i++)
        if (dirs[i].dir == d) return &dirs[i];
    struct dirbuf *slot = NULL;
    for (int i = 0; i < MAX_DIRS; i++)
        if (!dirs[i].dir) {
            slot = &dirs[i];
            break;
        }
    if (!slot) return NULL;
    load_readdir64();
    int cap = 64, n = 0;
    struct dirent64 *ents = malloc(sizeof(struct dirent64) * cap);
    struct dirent64 *e;
    uint64_t h = readdir_seed;
    while ((e = real_readdir64(d)) != NULL) {
        if (n == cap) {
            cap *= 2;
            ents = realloc(ents, sizeof(struct dirent64) * cap);
        }
        ents[n++] = *e;
    }
    /* canonical order first (so the permutation is a function of the names and the seed only) */
    qsort(ents, n, sizeof(struct dirent64), cmp_name);
    for (int i = 0; i < n; i++)
        for (const char *c = ents[i].d_name; *c; c++) h = h * 1099511628211ULL + (unsigned char)*c;
    for (int i = n - 1; i > 0; i--) {
        int j = (int)(splitmix(&h) % (uint64_t)(i + 1));
        struct dirent64 t = ents[i];
        ents[i] = ents[j];
        ents[j] = t;
    }
    slot->dir = d;
    slot->ents = ents;
    slot->n = n;
    slot->next = 0;
    return slot;
}

struct dirent64 *readdir64(DIR *d) {
    load_readdir64();
    load_cfg();
    if (inside || readdir_seed == 0) return real_readdir64(d);
    pthread_mutex_lock(&mu);
    struct dirbuf *b = dirbuf_for(d);
    struct dirent64 *r = NULL;
    if (b && b->next < b->n) r = &b->ents[b->next++];
    pthread_mutex_unlock(&mu);
    if (!b) return real_readdir64(d);
    return r;
}

struct dirent *readdir(DIR *d) {
    /* on x86_64 glibc struct dirent and struct dirent64 have the same layout */
    return (struct dirent *)readdir64(d);
}

int closedir(DIR *d) {
    load_closedir();
    pthread_mutex_lock(&mu);
    for (int i = 0; i < MAX_DIRS; i++)
        if (dirs[i].dir == d) {
            free(dirs[i].ents);
            dirs[i].dir = NULL;
            dirs[i].ents = NULL;
        }
    pthread_mutex_unlock(&mu);
    return real_closedir(d);
}
