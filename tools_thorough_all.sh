#!/bin/bash
# Builds once (while /repo is known to be clean), then runs the thorough tier of every check WITHOUT rebuilding,
# so that patches applied to /repo later (mutant testing) cannot leak into a long background run.
cd "$(dirname "$0")"
./check setup || exit 2
touch target/BUILD-DONE
V="$(pwd)"
for p in ${@:-C11 C12 C16 C19 C04 C20}; do
  echo "=== $p"
  LD_PRELOAD=$V/target/libsimlibc.so VERIF_ROOT=$V VERIF_IWE_BIN=$V/target/iwe/release/iwe VERIF_IWES_BIN=$V/target/iwe/release/iwes $V/target/sim/release/sim check $p thorough 2>&1 | grep -v "^KNOWN" | tail -8
done
