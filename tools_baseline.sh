#!/bin/bash
# runs the repository's baseline suite with the guard off; prints "passed N failed M"
cd /repo && CARGO_NET_OFFLINE=true cargo test --workspace --no-fail-fast --offline 2>&1 | awk '/^test result/{p+=$4; f+=$6} /FAILED|^error/{print} END {print "passed",p,"failed",f}'
