//! Process-level plumbing shared by all worlds: worker processes over disjoint seed ranges, merge of their
//! counters, known-findings matching, evidence and replay files.

use std::collections::{BTreeMap, BTreeSet};
use std::io::Write;
use std::path::{Path, PathBuf};
use std::process::{Command, Stdio};
use std::time::Instant;

use serde::{Deserialize, Serialize};
use serde_json::{json, Value};

use crate::rng;

pub const VERIF: &str = "/verif";

pub fn verif_path(rel: &str) -> PathBuf {
    match std::env::var("VERIF_ROOT") {
        Ok(r) if !r.is_empty() => Path::new(&r).join(rel),
        _ => Path::new(VERIF).join(rel),
    }
}

pub fn replay_path(name: &str) -> PathBuf {
    match std::env::var("VERIF_REPLAY_DIR") {
        Ok(r) if !r.is_empty() => Path::new(&r).join(name),
        _ => verif_path("replays").join(name),
    }
}

pub fn evidence_path(property: &str) -> PathBuf {
    match std::env::var("VERIF_EVIDENCE_DIR") {
        Ok(r) if !r.is_empty() => Path::new(&r).join(format!("{}.json", property)),
        _ => verif_path("evidence").join(format!("{}.json", property)),
    }
}

pub fn env_seed() -> u64 {
    std::env::var("VERIF_SEED").ok().and_then(|s| s.trim().parse::<u64>().ok()).unwrap_or(1)
}

pub fn jobs() -> usize {
    std::env::var("VERIF_JOBS").ok().and_then(|s| s.parse().ok()).unwrap_or(16)
}

/// seed of run `i` of a batch
pub fn run_seed(base: u64, i: u64) -> u64 {
    rng::mix2(base.wrapping_mul(0x9E3779B97F4A7C15) ^ 0x5151, i)
}

#[derive(Serialize, Deserialize, Clone, Debug)]
pub struct Failure {
    pub property: String,
    pub signature: String,
    pub run: u64,
    pub seed: u64,
    /// world-specific: the violation as observed
    pub violation: Value,
    /// world-specific: the explicit program + choices needed to re-execute
    pub case: Value,
}

/// What a worker reports. Everything is mergeable.
#[derive(Serialize, Deserialize, Clone, Debug, Default)]
pub struct Agg {
    pub runs: u64,
    pub steps: u64,
    pub discarded: u64,
    pub counters: BTreeMap<String, u64>,
    pub probes: BTreeMap<String, u64>,
    pub faults_fired: BTreeMap<String, u64>,
    /// distinct-case hashes (all runs)
    pub distinct: BTreeSet<u64>,
    /// distinct-case hashes of runs that were non-trivial by the world's rule
    pub distinct_nontrivial: BTreeSet<u64>,
    /// distinct abstract states (world-specific)
    pub states: BTreeSet<u64>,
    /// first failure per (property, signature) + totals
    pub failures: BTreeMap<String, Failure>,
    pub failure_counts: BTreeMap<String, u64>,
    pub samples: Vec<Value>,
    /// (run index, digest) — only filled in selftest mode
    pub digests: Vec<(u64, u64)>,
    pub wall_s: f64,
    pub errors: Vec<String>,
    /// run indexes during which a worker process died
    #[serde(default)]
    pub aborted_runs: Vec<u64>,
}

impl Agg {
    pub fn count(&mut self, k: &str, n: u64) {
        *self.counters.entry(k.to_string()).or_default() += n;
    }
    pub fn probe(&mut self, k: &str, n: u64) {
        *self.probes.entry(k.to_string()).or_default() += n;
    }
    pub fn fault(&mut self, k: &str, n: u64) {
        *self.faults_fired.entry(k.to_string()).or_default() += n;
    }
    pub fn fail(&mut self, f: Failure) {
        let k = format!("{}|{}", f.property, f.signature);
        *self.failure_counts.entry(k.clone()).or_default() += 1;
        match self.failures.get(&k) {
            Some(old) if old.run <= f.run => {}
            _ => {
                if self.failures.len() < 64 || self.failures.contains_key(&k) {
                    self.failures.insert(k, f);
                }
            }
        }
    }
    pub fn merge(&mut self, o: Agg) {
        self.runs += o.runs;
        self.steps += o.steps;
        self.discarded += o.discarded;
        for (k, v) in o.counters {
            *self.counters.entry(k).or_default() += v;
        }
        for (k, v) in o.probes {
            *self.probes.entry(k).or_default() += v;
        }
        for (k, v) in o.faults_fired {
            *self.faults_fired.entry(k).or_default() += v;
        }
        self.distinct.extend(o.distinct);
        self.distinct_nontrivial.extend(o.distinct_nontrivial);
        self.states.extend(o.states);
        for (k, v) in o.failure_counts {
            *self.failure_counts.entry(k).or_default() += v;
        }
        for (k, f) in o.failures {
            match self.failures.get(&k) {
                Some(old) if old.run <= f.run => {}
                _ => {
                    self.failures.insert(k, f);
                }
            }
        }
        for s in o.samples {
            if self.samples.len() < 5 {
                self.samples.push(s);
            }
        }
        self.digests.extend(o.digests);
        self.wall_s = self.wall_s.max(o.wall_s);
        self.errors.extend(o.errors);
        self.aborted_runs.extend(o.aborted_runs);
    }
}

/// Spawn `jobs` copies of this binary as workers over [0, runs) split into contiguous ranges and merge.
/// `extra` is passed through to the worker (`sim worker <world> <tier> <seed> <from> <to> <out> <extra...>`).
pub fn fan_out(world: &str, tier: &str, seed: u64, runs: u64, jobs: usize, extra: &[String]) -> Result<Agg, String> {
    let exe = std::env::current_exe().map_err(|e| e.to_string())?;
    let scratch = verif_path("target/scratch");
    std::fs::create_dir_all(&scratch).map_err(|e| e.to_string())?;
    let jobs = jobs.max(1).min(runs.max(1) as usize);
    let per = (runs + jobs as u64 - 1) / jobs as u64;
    let mut children = vec![];
    let stamp = std::process::id();
    let _ = per;
    for j in 0..jobs {
        // run indexes are dealt out round robin (worker j takes j, j+jobs, ...): expensive runs are spread evenly
        let from = j as u64;
        let to = runs;
        if from >= to {
            continue;
        }
        let out = scratch.join(format!("w-{}-{}-{}.json", stamp, world, j));
        let _ = std::fs::remove_file(&out);
        let mut cmd = Command::new(&exe);
        cmd.arg("worker").arg(world).arg(tier).arg(seed.to_string()).arg(from.to_string()).arg(to.to_string()).arg(&out);
        for e in extra {
            cmd.arg(e);
        }
        cmd.arg(format!("stride={}", jobs));
        if j % 2 == 1 && !extra.iter().any(|e| e == "digests") {
            // every second worker process runs the library with debug-level logging on (IWE_DEBUG=1 in production)
            cmd.arg("debuglog");
        }
        cmd.stdin(Stdio::null()).stdout(Stdio::null()).stderr(Stdio::inherit());
        let child = cmd.spawn().map_err(|e| format!("spawn worker: {}", e))?;
        children.push((child, out));
    }
    let mut total = Agg::default();
    // (child, out file, end of its range)
    let mut queue: Vec<(std::process::Child, PathBuf, u64, usize)> = vec![];
    let mut j = 0u64;
    for (child, out) in children {
        queue.push((child, out, runs, 0));
        j += 1;
    }
    let _ = j;
    let mut k = 0;
    while k < queue.len() {
        let st = queue[k].0.wait().map_err(|e| e.to_string())?;
        let out = queue[k].1.clone();
        let to = queue[k].2;
        let respawns = queue[k].3;
        k += 1;
        if !st.success() {
            // the process died inside a run (stack overflow, abort, OOM kill in the system under test): remember
            // which run, and let a new worker continue behind it
            let _ = std::fs::remove_file(&out);
            let progress = std::fs::read_to_string(out.with_extension("progress")).unwrap_or_default();
            let _ = std::fs::remove_file(out.with_extension("progress"));
            let idx: u64 = match progress.trim().parse() {
                Ok(i) => i,
                Err(_) => return Err(format!("worker exited with {:?} before it started any run", st.code())),
            };
            total.aborted_runs.push(idx);
            if respawns >= 6 {
                // this range keeps killing its workers: what was recorded is enough, stop exploring it
                total.count("ranges_abandoned_after_repeated_process_death", 1);
                continue;
            }
            if idx + (jobs as u64) < to {
                let out2 = scratch.join(format!("w-{}-{}-r{}-{}.json", stamp, world, idx, respawns));
                let mut cmd = Command::new(&exe);
                cmd.arg("worker").arg(world).arg(tier).arg(seed.to_string()).arg((idx + jobs as u64).to_string()).arg(to.to_string()).arg(&out2);
                for e in extra {
                    cmd.arg(e);
                }
                cmd.arg(format!("stride={}", jobs));
                cmd.stdin(Stdio::null()).stdout(Stdio::null()).stderr(Stdio::null());
                let child = cmd.spawn().map_err(|e| format!("spawn worker: {}", e))?;
                queue.push((child, out2, to, respawns + 1));
            }
            continue;
        }
        let _ = std::fs::remove_file(out.with_extension("progress"));
        let text = std::fs::read_to_string(&out).map_err(|e| format!("worker output {}: {}", out.display(), e))?;
        let agg: Agg = serde_json::from_str(&text).map_err(|e| format!("worker output parse: {}", e))?;
        let _ = std::fs::remove_file(&out);
        total.merge(agg);
    }
    Ok(total)
}

pub fn write_json(path: &Path, v: &Value) -> Result<(), String> {
    if let Some(p) = path.parent() {
        std::fs::create_dir_all(p).map_err(|e| e.to_string())?;
    }
    let mut f = std::fs::File::create(path).map_err(|e| format!("{}: {}", path.display(), e))?;
    f.write_all(serde_json::to_string_pretty(v).unwrap().as_bytes()).map_err(|e| e.to_string())?;
    f.write_all(b"\n").map_err(|e| e.to_string())
}

// ------------------------------------------------------------------------------------------------
// known findings

#[derive(Serialize, Deserialize, Clone, Debug)]
pub struct Finding {
    pub status: String, // "known" | "fixed"
    pub property: String,
    pub signature: String,
    pub what: String,
    #[serde(default)]
    pub replay: Option<String>,
    #[serde(default)]
    pub commit: Option<String>,
}

pub fn load_findings() -> Vec<Finding> {
    let p = verif_path("known_findings.json");
    match std::fs::read_to_string(&p) {
        Ok(t) => serde_json::from_str(&t).unwrap_or_else(|e| {
            eprintln!("HARNESS-ERROR: known_findings.json does not parse: {}", e);
            std::process::exit(2)
        }),
        Err(_) => vec![],
    }
}

pub fn known<'a>(findings: &'a [Finding], property: &str, signature: &str) -> Option<&'a Finding> {
    findings.iter().find(|f| f.status == "known" && f.property == property && f.signature == signature)
}

// ------------------------------------------------------------------------------------------------
// evidence

pub struct EvidenceIn<'a> {
    pub property: &'a str,
    pub tier: &'a str,
    pub seed: u64,
    pub level: &'a str,
    pub agg: &'a Agg,
    pub rule: &'a str,
    pub real: &'a [&'a str],
    pub stubs: &'a [&'a str],
    pub assumptions: &'a [&'a str],
    pub violations: u64,
    pub known_findings: Vec<String>,
    pub extra: Value,
    pub started: Instant,
}

pub fn write_evidence(e: EvidenceIn) -> Result<(), String> {
    let wall = e.started.elapsed().as_secs_f64();
    let mut coverage = json!({
        "evaluations": e.agg.runs,
        "distinct_nontrivial": e.agg.distinct_nontrivial.len(),
        "distinct_cases": e.agg.distinct.len(),
        "rule": e.rule,
        "samples": e.agg.samples,
        "steps": e.agg.steps,
        "simulated_time": format!("{} logical steps (the system has no clock; simulated time is the global event sequence)", e.agg.steps),
        "states": e.agg.states.len(),
        "discarded_runs": e.agg.discarded,
        "probes": e.agg.probes,
        "faults_fired": e.agg.faults_fired,
        "counters": e.agg.counters,
        "runs_per_hour": if wall > 0.0 { (e.agg.runs as f64 / wall * 3600.0) as u64 } else { 0 },
        "real_components": e.real,
        "stub_components": e.stubs,
        "entropy_controlled": crate::entropy::controlled(),
        "known_findings_seen": e.known_findings,
        "probe_gaps": e.agg.probes.iter().filter(|(_, v)| **v == 0).map(|(k, _)| k.clone()).collect::<Vec<_>>(),
    });
    if let (Value::Object(c), Value::Object(x)) = (&mut coverage, e.extra) {
        for (k, v) in x {
            c.insert(k, v);
        }
    }
    let v = json!({
        "property_id": e.property,
        "tier": e.tier,
        "seed": e.seed,
        "level": e.level,
        "coverage": coverage,
        "assumptions": e.assumptions,
        "wall_s": wall,
        "violations": e.violations,
    });
    write_json(&evidence_path(e.property), &v)
}

/// Called by workers before each run: remembers which run index is executing, so that a process abort
/// (stack overflow, OOM kill) inside the system under test can be attributed to one run.
pub fn note_progress(out_file: &str, index: u64) {
    let p = Path::new(out_file).with_extension("progress");
    let _ = std::fs::write(p, index.to_string());
}

/// `stride=<n>` among a worker's extra arguments (default 1)
pub fn stride_of(extra: &[String]) -> u64 {
    extra.iter().find_map(|e| e.strip_prefix("stride=").and_then(|v| v.parse().ok())).unwrap_or(1).max(1)
}
