//! Checks built on world H: C04 (incremental == fresh) and C20 (well-formed forest).

use std::time::Instant;

use serde_json::{json, Value};

use crate::runner::{self, Agg, EvidenceIn, Failure};
use crate::world_h::{self, History, Tier};
use crate::{entropy, rng};

fn tier_of(t: &str) -> Tier {
    if t == "thorough" {
        Tier::Thorough
    } else {
        Tier::Quick
    }
}

pub fn runs_for(tier: &str) -> u64 {
    if let Ok(v) = std::env::var("VERIF_RUNS") {
        if let Ok(n) = v.parse() {
            return n;
        }
    }
    match tier {
        "thorough" => 200_000,
        _ => 24_000,
    }
}

pub fn run_one(seed: u64, tier: Tier) -> (History, world_h::Outcome) {
    let h = world_h::generate(seed, tier);
    let o = run_history(seed, &h);
    (h, o)
}

/// one execution = fresh 1-thread rayon pool (fresh thread => hash keys drawn from the seeded entropy)
pub fn run_history(seed: u64, h: &History) -> world_h::Outcome {
    entropy::set(rng::mix2(seed, rng::fnv("entropy")));
    let pool = rayon::ThreadPoolBuilder::new().num_threads(1).stack_size(64 << 20).build().expect("rayon pool");
    let r = pool.install(|| world_h::run(h, true));
    drop(pool);
    r
}

pub fn worker(tier: &str, seed: u64, from: u64, to: u64, extra: &[String]) -> Agg {
    crate::quiet_panics();
    entropy::settle_long_lived_threads();
    let t0 = Instant::now();
    let selftest = extra.iter().any(|e| e == "digests");
    let mut agg = Agg::default();
    let tier = tier_of(tier);
    let progress_file = std::env::var("VERIF_WORKER_OUT").unwrap_or_default();
    let stride = runner::stride_of(extra);
    let mut i = from;
    while i < to {
        let this_i = i;
        i += stride;
        let i = this_i;
        if !progress_file.is_empty() {
            runner::note_progress(&progress_file, i);
        }
        let s = runner::run_seed(seed, i);
        let (h, o) = run_one(s, tier);
        agg.runs += 1;
        agg.steps += o.steps;
        agg.count("comparisons", o.comparisons);
        agg.count("patch_graphs_checked", o.patches_checked);
        if o.discarded {
            agg.discarded += 1;
            agg.probe("discarded-c03-shape", 1);
        }
        let shape = world_h::shape_hash(&h);
        agg.distinct.insert(shape);
        let nontrivial = !h.probes.is_empty() && !o.discarded;
        if nontrivial {
            agg.distinct_nontrivial.insert(shape);
        }
        agg.states.insert(rng::mix2(o.max_arena as u64, h.library.len() as u64));
        for (k, v) in &o.probes {
            agg.probe(k, *v);
            // the fault kinds of this world: server restart, update aborted half-way (and its repair)
            if k == "restart-fired" {
                agg.fault("server-restart", *v);
            }
            if k == "aborted-update" {
                agg.fault("update-aborted-half-way", *v);
            }
        }
        for v in &o.violations {
            agg.fail(Failure {
                property: v.property.clone(),
                signature: v.signature.clone(),
                run: i,
                seed: s,
                violation: serde_json::to_value(v).unwrap(),
                case: serde_json::to_value(&h).unwrap(),
            });
        }
        if agg.samples.len() < 3 && nontrivial && h.ops.len() <= 4 {
            agg.samples.push(json!({"seed": s, "run": i, "history": h}));
        }
        if selftest {
            agg.digests.push((i, rng::mix2(o.digest, o.steps)));
        }
    }
    for p in ["heading-removed-from-linked-note", "last-reference-removed", "block-after-table-changed", "new-note-resolves-dangling-link", "same-text-resent", "note-emptied", "restart-fired"] {
        agg.probe(p, 0);
    }
    agg.wall_s = t0.elapsed().as_secs_f64();
    agg
}

fn replay_value(property: &str, f: &Failure, case: &History, violation: &Value, minimised: bool, evals: usize) -> Value {
    json!({
        "world": "H",
        "property": property,
        "signature": f.signature,
        "seed": f.seed,
        "run": f.run,
        "minimised": minimised,
        "minimiser_evaluations": evals,
        "violation": violation,
        "case": case,
        "how_to_replay": "cd /verif && ./check replay <this file>",
    })
}

pub fn check(property: &str, tier: &str, started: Instant) -> i32 {
    crate::quiet_panics();
    entropy::settle_long_lived_threads();
    let seed = runner::env_seed();
    let runs = runs_for(tier);
    let agg = match runner::fan_out("H", tier, seed, runs, runner::jobs(), &[]) {
        Ok(a) => a,
        Err(e) => {
            eprintln!("HARNESS-ERROR: {}", e);
            return 2;
        }
    };
    let findings = runner::load_findings();
    let mut violations = 0u64;
    for i in agg.aborted_runs.iter().take(3) {
        // the process executing the history died (stack overflow / abort): the long-lived server is gone, which is
        // neither "answers like a fresh server" nor "a well-formed forest one can keep walking"
        let s = runner::run_seed(seed, *i);
        violations += 1;
        let path = runner::replay_path(&format!("{}-{}-abort.json", property, s));
        let h = world_h::generate(s, tier_of(tier));
        let rv = json!({"world": "H", "property": property, "signature": "process_abort", "seed": s, "run": i, "minimised": false,
            "violation": {"kind": "process_abort", "detail": "the process executing this history died (stack overflow or abort inside the library)"},
            "case": {"regenerate": {"base_seed": seed, "run": i, "tier": tier}, "history": h},
            "how_to_replay": "cd /verif && ./check replay <this file>  (re-executes the history in a child process)"});
        if let Err(e) = runner::write_json(&path, &rv) {
            eprintln!("HARNESS-ERROR: {}", e);
            return 2;
        }
        println!("VIOLATION property={} replay={}", property, path.display());
        println!("  signature=process_abort run_index={} seed={}", i, s);
    }
    let mut known_seen: Vec<String> = vec![];
    let mut minimised_budget = 6;
    // minimisation is a service, not the verdict: at most 3 minutes of it per check
    let min_deadline = started.elapsed().as_secs() + 180;
    for (k, f) in &agg.failures {
        if f.property != property {
            continue;
        }
        if let Some(kf) = runner::known(&findings, property, &f.signature) {
            println!("KNOWN-FINDING: property={} {} [signature {} seen in {} runs]", property, kf.what, f.signature, agg.failure_counts.get(k).copied().unwrap_or(0));
            known_seen.push(f.signature.clone());
            continue;
        }
        violations += 1;
        let h: History = serde_json::from_value(f.case.clone()).expect("history");
        let (case, violation, minimised, evals) = if minimised_budget > 0 && started.elapsed().as_secs() < min_deadline {
            minimised_budget -= 1;
            let (m, used) = world_h::minimise(&h, property, &f.signature, 300);
            let o = run_history(f.seed, &m);
            match o.violations.iter().find(|v| v.property == property && v.signature == f.signature) {
                Some(v) => (m, serde_json::to_value(v).unwrap(), true, used),
                None => (h.clone(), f.violation.clone(), false, used),
            }
        } else {
            (h.clone(), f.violation.clone(), false, 0)
        };
        let path = runner::replay_path(&format!("{}-{}-{}.json", property, f.seed, rng::fnv(&f.signature) % 100000));
        if let Err(e) = runner::write_json(&path, &replay_value(property, f, &case, &violation, minimised, evals)) {
            eprintln!("HARNESS-ERROR: {}", e);
            return 2;
        }
        println!("VIOLATION property={} replay={}", property, path.display());
        println!("  signature={} runs_with_it={} first_seed={}", f.signature, agg.failure_counts.get(k).copied().unwrap_or(0), f.seed);
        println!("  what: {}", serde_json::to_string(&violation).unwrap_or_default().chars().take(600).collect::<String>());
    }
    let (rule, real, stubs): (&str, Vec<&str>, Vec<&str>) = (
        "A case is one generated history (initial library + ops change/save/new/restart, each change a structured mutation of the previous text), executed on the real Server and compared after every op with a server freshly started on the model's texts. Distinct = hash of (refs_extension, library size, sequence of op kinds and mutation classes). Non-trivial = at least one staleness probe of the property fired in the history (heading removed from a linked note, last reference removed, block after table changed, new note resolves dangling link, same text resent, note emptied, restart) and the run was not discarded.",
        vec!["iwes::router::server::Server (all handle_* methods)", "liwe::database::Database", "liwe::graph::Graph + arena + index + path", "pulldown-cmark", "rayon (pool of 1 thread per run)"],
        vec!["editor (generated history)", "server restart = drop the Server and build a new one on the model texts", "entropy (seeded via LD_PRELOAD shim)", "LSP transport and dispatch are not in this world (world A covers them)"],
    );
    let extra = json!({
        "failure_signatures": agg.failure_counts,
        "explanation": if property == "C04" {
            "refinement against the restart model: after every op all answers of the long-lived server equal those of a fresh server on the same texts"
        } else {
            "invariant walker over the arena after every op (long-lived graph, fresh graph, and patch graphs built the way the handlers build them)"
        },
    });
    let ev = EvidenceIn {
        property,
        tier,
        seed,
        level: "exploration",
        agg: &agg,
        rule,
        real: &real,
        stubs: &stubs,
        assumptions: &[
            "generated documents avoid the c03-shapes carve-out (list items starting with code/quote/table/rule); runs in which even a fresh build panics are discarded and counted",
            "sampling, not proof: a clean batch is evidence proportional to the measured reach (probes, distinct history shapes)",
            "the fresh server is the oracle: a defect present identically in fresh and incremental paths is invisible here (it would be a pure-function defect, C01-C18)",
        ],
        violations,
        known_findings: known_seen,
        extra,
        started,
    };
    if let Err(e) = runner::write_evidence(ev) {
        eprintln!("HARNESS-ERROR: {}", e);
        return 2;
    }
    println!(
        "{} {}: runs={} steps={} distinct_nontrivial={} discarded={} violations={} wall={:.1}s",
        property,
        tier,
        agg.runs,
        agg.steps,
        agg.distinct_nontrivial.len(),
        agg.discarded,
        violations,
        started.elapsed().as_secs_f64()
    );
    if violations > 0 {
        1
    } else {
        0
    }
}

pub fn replay(v: &Value, path: &str) -> i32 {
    crate::quiet_panics();
    entropy::settle_long_lived_threads();
    let property = v["property"].as_str().unwrap_or("");
    let signature = v["signature"].as_str().unwrap_or("");
    let seed = v["seed"].as_u64().unwrap_or(0);
    if let Some(r) = v["case"].get("regenerate") {
        let exe = std::env::current_exe().expect("exe");
        let out = runner::verif_path(&format!("target/scratch/replay-abort-{}.json", std::process::id()));
        let i = r["run"].as_u64().unwrap_or(0);
        let st = std::process::Command::new(exe)
            .arg("worker").arg("H").arg(r["tier"].as_str().unwrap_or("quick")).arg(r["base_seed"].as_u64().unwrap_or(1).to_string()).arg(i.to_string()).arg((i + 1).to_string()).arg(&out)
            .stdout(std::process::Stdio::null()).stderr(std::process::Stdio::null()).status();
        let _ = std::fs::remove_file(&out);
        let _ = std::fs::remove_file(out.with_extension("progress"));
        return match st {
            Ok(s) if !s.success() => {
                println!("VIOLATION property={} replay={}", property, path);
                println!("  reproduced: the process executing the history died again ({:?})", s.code());
                1
            }
            Ok(_) => {
                println!("not reproduced: the history ran to its end");
                0
            }
            Err(e) => {
                eprintln!("HARNESS-ERROR: {}", e);
                2
            }
        };
    }
    let h: History = match serde_json::from_value(v["case"].clone()) {
        Ok(h) => h,
        Err(e) => {
            eprintln!("HARNESS-ERROR: replay case does not parse: {}", e);
            return 2;
        }
    };
    let o = run_history(seed, &h);
    match o.violations.iter().find(|x| x.property == property && x.signature == signature) {
        Some(x) => {
            println!("VIOLATION property={} replay={}", property, path);
            println!("  reproduced: step={} label={}", x.step, x.label);
            println!("  long-lived server: {}", x.inc);
            println!("  fresh server     : {}", x.fresh);
            1
        }
        None => {
            println!("not reproduced: property={} signature={} (other violations in this run: {:?})", property, signature, o.violations.iter().map(|v| v.signature.clone()).collect::<Vec<_>>());
            0
        }
    }
}

/// Determinism: 2000 seeds, each executed twice in different processes at two worker counts.
pub fn selftest() -> i32 {
    let seed = runner::env_seed();
    let n = std::env::var("VERIF_RUNS").ok().and_then(|s| s.parse().ok()).unwrap_or(2000u64);
    let extra = vec!["digests".to_string()];
    let a = runner::fan_out("H", "quick", seed, n, 4, &extra);
    let b = runner::fan_out("H", "quick", seed, n, 16, &extra);
    match (a, b) {
        (Ok(mut a), Ok(mut b)) => {
            a.digests.sort();
            b.digests.sort();
            let mism = a.digests.iter().zip(b.digests.iter()).filter(|(x, y)| x != y).count();
            println!("selftest H: seeds={} digest mismatches={} (4 vs 16 worker processes)", n, mism);
            if mism == 0 && a.digests.len() == n as usize && b.digests.len() == n as usize {
                0
            } else {
                2
            }
        }
        (a, b) => {
            eprintln!("HARNESS-ERROR: selftest: {:?} {:?}", a.err(), b.err());
            2
        }
    }
}
