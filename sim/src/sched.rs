//! World A mechanics: the real router (`iwes::main_loop`) over `Connection::memory()`, with every server
//! thread a real OS thread that parks at the hook points of `iwes::verif` and continues only when this
//! scheduler names it. At most one server thread runs at any time; one choice list is one execution.

use std::cell::Cell;
use std::collections::BTreeMap;
use std::sync::{Arc, Condvar, Mutex, MutexGuard};
use std::time::{Duration, Instant};

use iwes::verif::{Hooks, Point, ThreadId};
use lsp_server::{Connection, Message};
use serde::{Deserialize, Serialize};

thread_local! {
    /// simulator thread id of the current OS thread (0 = loop, n = n-th worker); u64::MAX = not a server thread
    pub static MY_TID: Cell<u64> = const { Cell::new(u64::MAX) };
}

#[derive(Clone, Copy, Debug, PartialEq, Eq)]
pub enum TState {
    Starting,
    Parked(Point),
    Running,
    Exited,
}

#[derive(Default)]
pub struct Inner {
    pub threads: BTreeMap<ThreadId, TState>,
    next_tid: ThreadId,
    granted: Option<ThreadId>,
    /// number of messages the loop has finished handling
    pub loop_handled: u64,
    /// (index of the message being handled, panic text) for panics caught on the loop
    pub loop_panics: Vec<(u64, String)>,
    /// worker tid -> index (in loop order) of the request message it serves
    pub worker_msg: BTreeMap<ThreadId, u64>,
    /// hook events in the order they happened
    pub events: Vec<(ThreadId, Point)>,
    /// panics on worker threads: (tid, text)
    pub worker_panics: Vec<(ThreadId, String)>,
}

static WORKER_PANICS: Mutex<Vec<(u64, String)>> = Mutex::new(Vec::new());

/// panic hook for simulator processes: silent, but remembers panics of server threads
pub fn install_panic_hook() {
    std::panic::set_hook(Box::new(|info| {
        let tid = MY_TID.with(|t| t.get());
        if tid != u64::MAX {
            let msg = if let Some(s) = info.payload().downcast_ref::<&str>() {
                s.to_string()
            } else if let Some(s) = info.payload().downcast_ref::<String>() {
                s.clone()
            } else {
                "?".to_string()
            };
            if let Ok(mut g) = WORKER_PANICS.lock() {
                g.push((tid, msg));
            }
        }
    }));
}

pub fn take_worker_panics() -> Vec<(u64, String)> {
    match WORKER_PANICS.lock() {
        Ok(mut g) => std::mem::take(&mut *g),
        Err(_) => vec![],
    }
}

pub struct Ctl {
    m: Mutex<Inner>,
    cv: Condvar,
}

impl Ctl {
    pub fn new() -> Arc<Ctl> {
        let mut inner = Inner::default();
        inner.threads.insert(0, TState::Starting);
        inner.next_tid = 1;
        Arc::new(Ctl { m: Mutex::new(inner), cv: Condvar::new() })
    }

    pub fn lock(&self) -> MutexGuard<'_, Inner> {
        self.m.lock().unwrap_or_else(|e| e.into_inner())
    }

    /// wait until thread `tid` is parked or exited (used once, for the loop's first LoopIdle)
    pub fn wait_settled(&self, tid: ThreadId, timeout: Duration) -> bool {
        let deadline = Instant::now() + timeout;
        let mut g = self.lock();
        loop {
            if matches!(g.threads.get(&tid), Some(TState::Parked(_)) | Some(TState::Exited)) && g.granted.is_none() {
                return true;
            }
            let now = Instant::now();
            if now >= deadline {
                return false;
            }
            let (ng, _) = self.cv.wait_timeout(g, deadline - now).unwrap_or_else(|e| e.into_inner());
            g = ng;
        }
    }

    /// let `tid` run until it parks again or exits. false = it neither parked nor exited in time.
    pub fn release(&self, tid: ThreadId, timeout: Duration) -> bool {
        {
            let mut g = self.lock();
            g.granted = Some(tid);
            self.cv.notify_all();
        }
        self.wait_settled(tid, timeout)
    }

    /// let `tid` go and return as soon as it has taken the grant (it keeps running)
    pub fn release_nowait(&self, tid: ThreadId, timeout: Duration) -> bool {
        let deadline = Instant::now() + timeout;
        let mut g = self.lock();
        g.granted = Some(tid);
        self.cv.notify_all();
        loop {
            if g.granted.is_none() {
                return true;
            }
            let now = Instant::now();
            if now >= deadline {
                return false;
            }
            let (ng, _) = self.cv.wait_timeout(g, deadline - now).unwrap_or_else(|e| e.into_inner());
            g = ng;
        }
    }

    pub fn state(&self, tid: ThreadId) -> Option<TState> {
        self.lock().threads.get(&tid).copied()
    }

    pub fn note_worker_panic(&self, tid: ThreadId, msg: String) {
        self.lock().worker_panics.push((tid, msg));
    }
}

impl Hooks for Ctl {
    fn point(&self, tid: ThreadId, point: Point) {
        MY_TID.with(|t| t.set(tid));
        let mut g = self.lock();
        if matches!(g.threads.get(&tid), Some(TState::Exited)) {
            // a thread that has reported its exit runs unscheduled; nothing it does may be logged
            return;
        }
        g.events.push((tid, point));
        match point {
            Point::LoopHandled => {
                g.loop_handled += 1;
            }
            Point::WorkerExit | Point::LoopExit => {
                g.threads.insert(tid, TState::Exited);
                self.cv.notify_all();
            }
            _ => {
                g.threads.insert(tid, TState::Parked(point));
                self.cv.notify_all();
                while g.granted != Some(tid) {
                    g = self.cv.wait(g).unwrap_or_else(|e| e.into_inner());
                }
                g.granted = None;
                g.threads.insert(tid, TState::Running);
                self.cv.notify_all();
            }
        }
    }

    fn spawning(&self, _parent: ThreadId) -> ThreadId {
        // the next thread this OS thread creates is a scheduled worker, not an unscheduled one
        crate::entropy::expect_spawn();
        let mut g = self.lock();
        let tid = g.next_tid;
        g.next_tid += 1;
        g.threads.insert(tid, TState::Starting);
        let idx = g.loop_handled;
        g.worker_msg.insert(tid, idx);
        tid
    }

    fn spawned(&self, _parent: ThreadId, child: ThreadId) {
        // return only once the child is parked at WorkerStart: the set of schedulable threads must
        // never depend on how fast the OS starts a thread
        let mut g = self.lock();
        while matches!(g.threads.get(&child), Some(TState::Starting)) {
            g = self.cv.wait(g).unwrap_or_else(|e| e.into_inner());
        }
    }

    fn note_panic(&self, _tid: ThreadId, message: &str) {
        let mut g = self.lock();
        let idx = g.loop_handled;
        g.loop_panics.push((idx, message.to_string()));
    }
}

// ------------------------------------------------------------------------------------------------

#[derive(Clone, Debug, Serialize, Deserialize, PartialEq)]
#[serde(tag = "c")]
pub enum Choice {
    /// client emits its next enabled program step
    Send,
    /// run server thread t (0 = loop) until it parks again or exits
    Run { t: u64 },
    /// racy runs only: let worker t and the message loop execute *at the same time* (real parallelism between
    /// two hook points), then wait for both. Reaches interleavings inside a handler; not exactly replayable.
    Overlap { t: u64 },
}

#[derive(Clone, Copy, Debug, Serialize, Deserialize, PartialEq)]
pub struct Policy {
    pub w_send: u32,
    pub w_loop: u32,
    pub w_start: u32,
    pub w_before_send: u32,
    pub w_after_send: u32,
}

pub const POLICIES: &[(&str, Policy)] = &[
    ("uniform", Policy { w_send: 10, w_loop: 10, w_start: 10, w_before_send: 10, w_after_send: 10 }),
    ("send-biased", Policy { w_send: 40, w_loop: 20, w_start: 5, w_before_send: 5, w_after_send: 5 }),
    ("late-exit", Policy { w_send: 20, w_loop: 20, w_start: 20, w_before_send: 20, w_after_send: 1 }),
    ("late-start", Policy { w_send: 20, w_loop: 20, w_start: 1, w_before_send: 20, w_after_send: 20 }),
    ("mostly-sequential", Policy { w_send: 1, w_loop: 8, w_start: 60, w_before_send: 60, w_after_send: 60 }),
    ("slow-compute", Policy { w_send: 20, w_loop: 20, w_start: 20, w_before_send: 1, w_after_send: 20 }),
];

pub enum Mode<'a> {
    Random { rng: &'a mut crate::rng::Rng, policy: Policy },
    /// like Random, but now and then a worker is overlapped with the loop
    Racy { rng: &'a mut crate::rng::Rng, policy: Policy },
    /// send one message, run everything to completion, repeat
    Sequential,
    Replay { choices: &'a [Choice], at: usize },
}

#[derive(Debug)]
pub enum SchedError {
    ReplayDivergence(String),
    /// step budget exhausted: the choices made so far
    Budget(Vec<Choice>),
    Stuck(String),
}

/// What the scheduler can see at a decision point
pub struct View {
    pub can_send: bool,
    pub loop_enabled: bool,
    /// parked workers: (tid, point)
    pub workers: Vec<(ThreadId, Point)>,
}

impl View {
    pub fn enabled(&self) -> Vec<Choice> {
        let mut v = vec![];
        if self.can_send {
            v.push(Choice::Send);
        }
        if self.loop_enabled {
            v.push(Choice::Run { t: 0 });
        }
        for (t, _) in &self.workers {
            v.push(Choice::Run { t: *t });
        }
        v
    }
}

impl<'a> Mode<'a> {
    pub fn choose(&mut self, view: &View) -> Result<Option<Choice>, SchedError> {
        let enabled = view.enabled();
        if enabled.is_empty() {
            return Ok(None);
        }
        match self {
            Mode::Sequential => {
                if let Some((t, _)) = view.workers.first() {
                    return Ok(Some(Choice::Run { t: *t }));
                }
                if view.loop_enabled {
                    return Ok(Some(Choice::Run { t: 0 }));
                }
                Ok(Some(Choice::Send))
            }
            Mode::Racy { rng, policy } => {
                if view.loop_enabled {
                    let starting: Vec<ThreadId> = view.workers.iter().filter(|(_, p)| *p == Point::WorkerStart).map(|(t, _)| *t).collect();
                    if !starting.is_empty() && rng.chance(1, 2) {
                        let t = *rng.pick(&starting);
                        return Ok(Some(Choice::Overlap { t }));
                    }
                }
                Mode::Random { rng: &mut **rng, policy: *policy }.choose(view)
            }
            Mode::Random { rng, policy } => {
                let mut weights = vec![];
                for c in &enabled {
                    weights.push(match c {
                        Choice::Send => policy.w_send,
                        Choice::Run { t: 0 } => policy.w_loop,
                        Choice::Run { t } => match view.workers.iter().find(|(w, _)| w == t).map(|(_, p)| *p) {
                            Some(Point::WorkerStart) => policy.w_start,
                            Some(Point::BeforeSend) => policy.w_before_send,
                            _ => policy.w_after_send,
                        },
                        Choice::Overlap { .. } => 0,
                    });
                }
                let i = rng.weighted(&weights);
                Ok(Some(enabled[i].clone()))
            }
            Mode::Replay { choices, at } => {
                if *at >= choices.len() {
                    // recorded list exhausted: finish deterministically
                    return Mode::Sequential.choose(view);
                }
                let c = choices[*at].clone();
                *at += 1;
                let overlap_ok = matches!(&c, Choice::Overlap { t } if view.loop_enabled && view.workers.iter().any(|(w, _)| w == t));
                if !enabled.contains(&c) && !overlap_ok {
                    return Err(SchedError::ReplayDivergence(format!("choice #{} {:?} is not enabled (enabled: {:?})", *at - 1, c, enabled)));
                }
                Ok(Some(c))
            }
        }
    }
}

/// The live system of one run.
pub struct System {
    pub ctl: Arc<Ctl>,
    pub client: Option<Connection>,
    pub loop_thread: Option<std::thread::JoinHandle<Result<(), String>>>,
    pub watchdog: Duration,
    pub blocked: Vec<ThreadId>,
}

impl System {
    pub fn start(params: iwes::ServerParams) -> Result<System, String> {
        let _ = take_worker_panics();
        let ctl = Ctl::new();
        let (server_conn, client_conn) = Connection::memory();
        let hooks: Arc<dyn Hooks> = ctl.clone();
        let handle = std::thread::Builder::new()
            .name("sim-loop".into())
            .spawn(move || {
                MY_TID.with(|t| t.set(0));
                crate::entropy::mark_server_thread(true);
                iwes::verif::install(hooks, 0);
                let r = std::panic::catch_unwind(std::panic::AssertUnwindSafe(|| iwes::main_loop(server_conn, params)));
                // if main_loop returned without passing LoopExit (e.g. panicked while building the server)
                iwes::verif::point(Point::LoopExit);
                match r {
                    Ok(Ok(())) => Ok(()),
                    Ok(Err(e)) => Err(format!("{}", e)),
                    Err(_) => Err("main_loop panicked".to_string()),
                }
            })
            .map_err(|e| e.to_string())?;
        let watchdog = Duration::from_millis(std::env::var("VERIF_WATCHDOG_MS").ok().and_then(|s| s.parse().ok()).unwrap_or(3000));
        let sys = System { ctl, client: Some(client_conn), loop_thread: Some(handle), watchdog, blocked: vec![] };
        if !sys.ctl.wait_settled(0, Duration::from_secs(20)) {
            return Err("loop thread did not reach its first idle point".into());
        }
        Ok(sys)
    }

    pub fn inbox_len(&self) -> usize {
        self.client.as_ref().map(|c| c.sender.len()).unwrap_or(0)
    }

    pub fn view(&self, can_send: bool) -> View {
        let g = self.ctl.lock();
        let loop_enabled = match g.threads.get(&0) {
            Some(TState::Parked(Point::LoopIdle)) => self.inbox_len() > 0 || self.client.is_none(),
            Some(TState::Parked(_)) => true,
            _ => false,
        };
        let workers = g.threads.iter().filter(|(t, _)| **t != 0).filter_map(|(t, s)| if let TState::Parked(p) = s { Some((*t, *p)) } else { None }).collect();
        View { can_send, loop_enabled, workers }
    }

    /// worker `t` and the loop run in parallel until both have parked again (or exited)
    pub fn run_overlapped(&mut self, t: ThreadId) -> bool {
        let a = self.ctl.release_nowait(t, self.watchdog);
        let b = self.ctl.release(0, self.watchdog);
        let c = self.ctl.wait_settled(t, self.watchdog);
        for (ok, who) in [(a && c, t), (b, 0)] {
            if !ok && !self.blocked.contains(&who) {
                self.blocked.push(who);
            }
        }
        a && b && c
    }

    pub fn run_thread(&mut self, t: ThreadId) -> bool {
        let ok = self.ctl.release(t, self.watchdog);
        if !ok && !self.blocked.contains(&t) {
            self.blocked.push(t);
        }
        ok
    }

    pub fn send(&self, m: Message) -> bool {
        match &self.client {
            Some(c) => c.sender.send(m).is_ok(),
            None => false,
        }
    }

    pub fn drain(&self) -> Vec<Message> {
        let mut v = vec![];
        if let Some(c) = &self.client {
            while let Ok(m) = c.receiver.try_recv() {
                v.push(m);
            }
        }
        v
    }

    pub fn crash_client(&mut self) {
        self.client = None;
    }

    pub fn live_workers(&self) -> Vec<(ThreadId, TState)> {
        self.ctl.lock().threads.iter().filter(|(t, s)| **t != 0 && !matches!(s, TState::Exited)).map(|(t, s)| (*t, *s)).collect()
    }

    pub fn loop_state(&self) -> Option<TState> {
        self.ctl.state(0)
    }

    /// run every server thread to completion (after `exit` or a client crash); returns the loop's result
    pub fn finish(&mut self) -> Result<Result<(), String>, String> {
        let mut guard = 0;
        loop {
            guard += 1;
            if guard > 10_000 {
                return Err("finish: too many steps".into());
            }
            let v = self.view(false);
            if let Some((t, _)) = v.workers.first() {
                if !self.run_thread(*t) {
                    return Err(format!("worker {} blocked during shutdown", t));
                }
                continue;
            }
            if v.loop_enabled {
                if !self.run_thread(0) {
                    return Err("loop blocked during shutdown".into());
                }
                continue;
            }
            break;
        }
        match self.loop_state() {
            Some(TState::Exited) => {}
            other => return Err(format!("loop thread did not exit (state {:?}, inbox {})", other, self.inbox_len())),
        }
        let h = self.loop_thread.take().ok_or("no loop thread")?;
        h.join().map_err(|_| "loop thread join failed".to_string())
    }
}
