//! Cross-check of the transport stub (C12): the real `iwes` binary (release build of /repo with the workspace's
//! own profile, hooks off) driven over real stdio pipes. World A replaces stdio by the in-memory connection the
//! test-suite uses, which is unbounded, whereas `Connection::stdio()` hands messages over through zero-capacity
//! channels and a writer thread; and world A links the library into the simulator with the simulator's build
//! profile. This session is a real execution (its timing is not controlled), its oracle is exact: every request
//! gets exactly one response, an edit is visible afterwards, shutdown/exit end the process with status 0.

use std::collections::BTreeMap;
use std::io::{BufRead, BufReader, Read, Write};
use std::path::Path;
use std::process::{Command, Stdio};
use std::sync::mpsc;
use std::time::{Duration, Instant};

use serde_json::{json, Value};

pub struct StdioOutcome {
    pub requests: usize,
    pub violations: Vec<(String, String)>, // (signature, detail)
}

fn frame(v: &Value) -> Vec<u8> {
    let body = v.to_string();
    format!("Content-Length: {}\r\n\r\n{}", body.len(), body).into_bytes()
}

fn reader_thread(out: impl Read + Send + 'static, tx: mpsc::Sender<Value>) {
    std::thread::spawn(move || {
        let mut r = BufReader::new(out);
        loop {
            let mut len = 0usize;
            loop {
                let mut line = String::new();
                match r.read_line(&mut line) {
                    Ok(0) | Err(_) => return,
                    Ok(_) => {}
                }
                let l = line.trim();
                if l.is_empty() {
                    break;
                }
                if let Some(v) = l.strip_prefix("Content-Length:") {
                    len = v.trim().parse().unwrap_or(0);
                }
            }
            let mut buf = vec![0u8; len];
            if r.read_exact(&mut buf).is_err() {
                return;
            }
            if let Ok(v) = serde_json::from_slice::<Value>(&buf) {
                if tx.send(v).is_err() {
                    return;
                }
            }
        }
    });
}

/// collect responses until every id in `want` has been seen or `timeout` passed
fn collect(rx: &mpsc::Receiver<Value>, seen: &mut BTreeMap<i64, usize>, want: &[i64], timeout: Duration) {
    let t0 = Instant::now();
    loop {
        if want.iter().all(|i| seen.get(i).copied().unwrap_or(0) >= 1) {
            // a little longer for duplicates
            while let Ok(v) = rx.recv_timeout(Duration::from_millis(50)) {
                note(&v, seen);
            }
            return;
        }
        let left = timeout.checked_sub(t0.elapsed());
        match left {
            None => return,
            Some(l) => match rx.recv_timeout(l.min(Duration::from_millis(500))) {
                Ok(v) => note(&v, seen),
                Err(mpsc::RecvTimeoutError::Timeout) => {}
                Err(_) => return,
            },
        }
    }
}

fn note(v: &Value, seen: &mut BTreeMap<i64, usize>) {
    if v.get("method").is_none() {
        if let Some(id) = v.get("id").and_then(|i| i.as_i64()) {
            *seen.entry(id).or_default() += 1;
            LAST.with(|l| l.borrow_mut().insert(id, v.clone()));
        }
    }
}

thread_local! {
    static LAST: std::cell::RefCell<BTreeMap<i64, Value>> = const { std::cell::RefCell::new(BTreeMap::new()) };
}

pub fn run_session(iwes: &Path, scratch: &Path, seed: u64) -> Result<StdioOutcome, String> {
    let dir = scratch.join(format!("stdio-{}", std::process::id()));
    let _ = std::fs::remove_dir_all(&dir);
    std::fs::create_dir_all(&dir).map_err(|e| e.to_string())?;
    let mut rng = crate::rng::Rng::stream(seed, "stdio");
    let n_notes = rng.range(2, 6);
    // session flavours: a library with raw HTML blocks and comments; a configured library path that does not exist
    let flavour = seed % 3;
    let lib = if flavour == 2 { dir.join("notes-that-do-not-exist") } else { dir.clone() };
    if flavour == 2 {
        std::fs::create_dir_all(dir.join(".iwe")).map_err(|e| e.to_string())?;
        std::fs::write(dir.join(".iwe/config.toml"), "prompt_key_prefix = \"prompt\"\n\n[markdown]\nrefs_extension = \"\"\n\n[library]\npath = \"notes-that-do-not-exist\"\n\n[models]\n\n[actions]\n").map_err(|e| e.to_string())?;
    } else {
        for i in 1..=n_notes {
            let extra = if flavour == 1 { "\n<div>\nraw html block\n</div>\n\n<!-- a comment -->\n" } else { "" };
            let t = format!("# note {}\n\n[next]({})\n{}\ntext über 日本 {}\n", i, i % n_notes + 1, extra, "word ".repeat(rng.range(1, 200)));
            std::fs::write(dir.join(format!("{}.md", i)), t).map_err(|e| e.to_string())?;
        }
    }
    let base = lib.to_string_lossy().to_string();
    let uri = |k: &str| format!("file://{}/{}.md", base, k);
    let mut child = Command::new(iwes).current_dir(&dir).stdin(Stdio::piped()).stdout(Stdio::piped()).stderr(Stdio::null()).env_remove("LD_PRELOAD").env_remove("IWE_DEBUG").spawn().map_err(|e| format!("spawn iwes: {}", e))?;
    let mut stdin = child.stdin.take().ok_or("no stdin")?;
    let stdout = child.stdout.take().ok_or("no stdout")?;
    let (tx, rx) = mpsc::channel();
    reader_thread(stdout, tx);
    LAST.with(|l| l.borrow_mut().clear());
    let mut seen: BTreeMap<i64, usize> = BTreeMap::new();
    let mut violations = vec![];
    let mut total = 0usize;
    let mut send = |v: Value| -> Result<(), String> { stdin.write_all(&frame(&v)).and_then(|_| stdin.flush()).map_err(|e| format!("write to iwes: {}", e)) };

    // 1. initialize
    send(json!({"jsonrpc": "2.0", "id": 1, "method": "initialize", "params": {"capabilities": {}, "processId": null, "rootUri": null}}))?;
    collect(&rx, &mut seen, &[1], Duration::from_secs(30));
    if seen.get(&1).copied().unwrap_or(0) != 1 {
        let _ = child.kill();
        let _ = std::fs::remove_dir_all(&dir);
        return Err("iwes did not answer initialize".into());
    }
    send(json!({"jsonrpc": "2.0", "method": "initialized", "params": {}}))?;

    // 2. bursts: many requests written back to back, nobody reading in between
    let mut id = 100i64;
    for _round in 0..3 {
        let mut want = vec![];
        let n = rng.range(60, 160);
        for _ in 0..n {
            id += 1;
            want.push(id);
            let k = format!("{}", rng.range(1, n_notes));
            let m = match rng.below(4) {
                0 => json!({"jsonrpc": "2.0", "id": id, "method": "textDocument/formatting", "params": {"textDocument": {"uri": uri(&k)}, "options": {"tabSize": 2, "insertSpaces": true}}}),
                1 => json!({"jsonrpc": "2.0", "id": id, "method": "workspace/symbol", "params": {"query": ""}}),
                2 => json!({"jsonrpc": "2.0", "id": id, "method": "textDocument/inlayHint", "params": {"textDocument": {"uri": uri(&k)}, "range": {"start": {"line": 0, "character": 0}, "end": {"line": 999, "character": 0}}}}),
                _ => json!({"jsonrpc": "2.0", "id": id, "method": "textDocument/references", "params": {"textDocument": {"uri": uri(&k)}, "position": {"line": 0, "character": 0}, "context": {"includeDeclaration": false}}}),
            };
            send(m)?;
        }
        total += want.len();
        collect(&rx, &mut seen, &want, Duration::from_secs(60));
        let missing = want.iter().filter(|i| seen.get(i).copied().unwrap_or(0) == 0).count();
        let dup = want.iter().filter(|i| seen.get(i).copied().unwrap_or(0) > 1).count();
        if missing > 0 {
            violations.push(("stdio/no_response/burst".to_string(), format!("{} of {} requests written back to back over real stdio were never answered", missing, want.len())));
            break;
        }
        if dup > 0 {
            violations.push(("stdio/duplicate_response/burst".to_string(), format!("{} requests got more than one response", dup)));
        }
    }

    // 3. requests a healthy server answers with an error, then a probe
    if violations.is_empty() {
        let faulty = vec![
            ("unknown-file", json!({"jsonrpc": "2.0", "id": 9001, "method": "textDocument/inlayHint", "params": {"textDocument": {"uri": uri("no-such-note")}, "range": {"start": {"line": 0, "character": 0}, "end": {"line": 9, "character": 0}}}})),
            ("stale-resolve", json!({"jsonrpc": "2.0", "id": 9002, "method": "codeAction/resolve", "params": {"title": "x", "kind": "refactor.extract.section", "data": 4000000}})),
            ("unknown-method", json!({"jsonrpc": "2.0", "id": 9003, "method": "textDocument/hover", "params": {"textDocument": {"uri": uri("1")}, "position": {"line": 0, "character": 0}}})),
            ("probe", json!({"jsonrpc": "2.0", "id": 9004, "method": "textDocument/formatting", "params": {"textDocument": {"uri": uri("1")}, "options": {"tabSize": 2, "insertSpaces": true}}})),
        ];
        for (what, m) in faulty {
            let rid = m["id"].as_i64().unwrap();
            if send(m).is_err() {
                violations.push((format!("stdio/process_gone/{}", what), "the server closed its input".into()));
                break;
            }
            total += 1;
            collect(&rx, &mut seen, &[rid], Duration::from_secs(20));
            let c = seen.get(&rid).copied().unwrap_or(0);
            if c != 1 {
                let status = child.try_wait().ok().flatten();
                violations.push((format!("stdio/{}/{}", if c == 0 { "no_response" } else { "duplicate_response" }, what), format!("request {} ({}) got {} responses{}", rid, what, c, status.map(|s| format!("; the server process has ended: {:?}", s)).unwrap_or_default())));
                break;
            }
        }
    }

    // 4. an edit is visible to the next request
    if violations.is_empty() {
        send(json!({"jsonrpc": "2.0", "method": "textDocument/didChange", "params": {"textDocument": {"uri": uri("1"), "version": 2}, "contentChanges": [{"text": "# changed\n\nver v777\n"}]}}))?;
        send(json!({"jsonrpc": "2.0", "id": 9100, "method": "textDocument/formatting", "params": {"textDocument": {"uri": uri("1")}, "options": {"tabSize": 2, "insertSpaces": true}}}))?;
        total += 1;
        collect(&rx, &mut seen, &[9100], Duration::from_secs(20));
        let ok = LAST.with(|l| l.borrow().get(&9100).map(|v| v.to_string().contains("ver v777")).unwrap_or(false));
        if !ok {
            violations.push(("stdio/edit_not_visible".to_string(), "formatting after didChange over real stdio does not show the new text".into()));
        }
    }

    // 5. shutdown, exit, status 0
    if violations.is_empty() {
        send(json!({"jsonrpc": "2.0", "id": 9999, "method": "shutdown", "params": null}))?;
        total += 1;
        collect(&rx, &mut seen, &[9999], Duration::from_secs(20));
        if seen.get(&9999).copied().unwrap_or(0) != 1 {
            violations.push(("stdio/no_response/shutdown".to_string(), "shutdown was not answered".into()));
        }
        send(json!({"jsonrpc": "2.0", "method": "exit", "params": null}))?;
        let t0 = Instant::now();
        let mut status = None;
        while t0.elapsed() < Duration::from_secs(20) {
            if let Ok(Some(s)) = child.try_wait() {
                status = Some(s);
                break;
            }
            std::thread::sleep(Duration::from_millis(20));
        }
        match status {
            None => violations.push(("stdio/exit_hang".to_string(), "the server process did not end within 20 s after shutdown + exit".into())),
            Some(s) if !s.success() => violations.push(("stdio/exit_status".to_string(), format!("the server process ended with {:?} after shutdown + exit", s))),
            _ => {}
        }
    }
    let _ = child.kill();
    let _ = child.wait();
    let _ = std::fs::remove_dir_all(&dir);
    Ok(StdioOutcome { requests: total, violations })
}
