//! One integer decides everything: SplitMix64 -> independent xoshiro256** streams keyed by purpose.
//! Implemented here so that value stability never depends on a dependency.

#[derive(Clone, Debug)]
pub struct Rng {
    s: [u64; 4],
}

pub fn splitmix(x: &mut u64) -> u64 {
    *x = x.wrapping_add(0x9E3779B97F4A7C15);
    let mut z = *x;
    z = (z ^ (z >> 30)).wrapping_mul(0xBF58476D1CE4E5B9);
    z = (z ^ (z >> 27)).wrapping_mul(0x94D049BB133111EB);
    z ^ (z >> 31)
}

pub fn mix2(a: u64, b: u64) -> u64 {
    let mut x = a ^ 0xD6E8FEB86659FD93u64.wrapping_mul(b.wrapping_add(0x2545F4914F6CDD1D));
    let r = splitmix(&mut x);
    let mut y = r ^ b.rotate_left(17);
    splitmix(&mut y)
}

pub fn fnv(s: &str) -> u64 {
    let mut h: u64 = 0xcbf29ce484222325;
    for b in s.as_bytes() {
        h ^= *b as u64;
        h = h.wrapping_mul(0x100000001b3);
    }
    h
}

pub fn hash_bytes(b: &[u8]) -> u64 {
    let mut h: u64 = 0xcbf29ce484222325;
    for x in b {
        h ^= *x as u64;
        h = h.wrapping_mul(0x100000001b3);
    }
    let mut y = h;
    splitmix(&mut y)
}

impl Rng {
    pub fn new(seed: u64) -> Rng {
        let mut x = seed;
        let s = [splitmix(&mut x), splitmix(&mut x), splitmix(&mut x), splitmix(&mut x)];
        Rng { s }
    }

    /// Independent stream for a purpose ("workload", "schedule", "faults", "entropy", "swarm").
    pub fn stream(seed: u64, purpose: &str) -> Rng {
        Rng::new(mix2(seed, fnv(purpose)))
    }

    pub fn next(&mut self) -> u64 {
        let result = self.s[1].wrapping_mul(5).rotate_left(7).wrapping_mul(9);
        let t = self.s[1] << 17;
        self.s[2] ^= self.s[0];
        self.s[3] ^= self.s[1];
        self.s[1] ^= self.s[2];
        self.s[0] ^= self.s[3];
        self.s[2] ^= t;
        self.s[3] = self.s[3].rotate_left(45);
        result
    }

    /// uniform in 0..n (n>0)
    pub fn below(&mut self, n: usize) -> usize {
        debug_assert!(n > 0);
        (self.next() % (n as u64)) as usize
    }

    /// inclusive range
    pub fn range(&mut self, lo: usize, hi: usize) -> usize {
        lo + self.below(hi - lo + 1)
    }

    pub fn chance(&mut self, num: u32, den: u32) -> bool {
        (self.next() % den as u64) < num as u64
    }

    pub fn pick<'a, T>(&mut self, xs: &'a [T]) -> &'a T {
        &xs[self.below(xs.len())]
    }

    pub fn shuffle<T>(&mut self, xs: &mut [T]) {
        for i in (1..xs.len()).rev() {
            let j = self.below(i + 1);
            xs.swap(i, j);
        }
    }

    /// weighted pick: returns index
    pub fn weighted(&mut self, weights: &[u32]) -> usize {
        let total: u64 = weights.iter().map(|w| *w as u64).sum();
        debug_assert!(total > 0);
        let mut r = self.next() % total;
        for (i, w) in weights.iter().enumerate() {
            if r < *w as u64 {
                return i;
            }
            r -= *w as u64;
        }
        weights.len() - 1
    }
}
