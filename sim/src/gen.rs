//! Workload documents: a small block model of Markdown notes, a renderer, a seeded generator and
//! structured mutations chosen to exercise staleness (DESIGN.md 4.2, 4.4).
//!
//! Carve-out `c03-shapes`: a list item never starts with a code block, quote, table or rule (those
//! panic in SectionsBuilder on the pinned tree; C03's subject, not decided here).

use crate::rng::Rng;

#[derive(Clone, Debug, PartialEq)]
pub enum Inline {
    Word(String),
    Link { text: String, key: String, ext: bool },
    Wiki(String),
    WikiPiped(String, String),
    Url(String),
    Emph(Vec<Inline>),
    Strong(Vec<Inline>),
    Code(String),
    Image(String),
}

#[derive(Clone, Debug, PartialEq)]
pub enum Block {
    Heading { level: u8, inl: Vec<Inline>, setext: bool },
    Para(Vec<Vec<Inline>>),
    List { ordered: bool, items: Vec<Vec<Block>> },
    BlockRef { text: String, key: String, ext: bool },
    WikiRef(String),
    Code { lang: Option<String>, body: String },
    Quote(Vec<Block>),
    Table { header: Vec<Vec<Inline>>, rows: Vec<Vec<Vec<Inline>>> },
    Rule,
    /// raw lines (unclosed fences, display math, trailing blank lines ...): rendered verbatim
    Raw(String),
}

#[derive(Clone, Debug, PartialEq, Default)]
pub struct Doc {
    pub front: Option<String>,
    pub blocks: Vec<Block>,
    pub trailing_newline: bool,
    /// the text starts with a byte-order mark (some editors write one)
    pub bom: bool,
}

/// Markdown constructs random block generation rarely produces. Rendered verbatim (Block::Raw). Shapes that make
/// even a fresh build panic on the unchanged tree are discarded at run time (and counted), not listed here.
pub const ZOO: &[&str] = &[
    "> > nested quote\n> > second line",
    "3. third\n4. fourth",
    "- [ ] open task\n- [x] done task",
    "[ref]: https://example.com \"ref title\"\n\nsee [ref] and [other][ref]",
    "<https://example.com/auto>",
    "<div>\nhtml block\n</div>",
    "<!-- only a comment -->",
    "$$\nx = 1\n$$",
    "line one  \nline two after a hard break",
    "`` code with ` backtick ``",
    "| a | b |\n|:--|--:|\n| 1 \\| 2 | 3 |",
    "[*emph* in link](1)",
    "[https://example.com](https://example.com)",
    "[a](1 \"link title\")",
    "#",
    "# ![](logo.png)",
    "# [](1)",
    "## &nbsp;",
    "Setext heading\n======",
    "#### skipped levels",
    "trailing backslash\\\nnext line",
    "![image](pic.png \"t\")",
    "~~strike~~ and **bold _nested_ text**",
    "    indented code block",
    "[^1]: a footnote\n\ntext with a footnote[^1]",
    "&amp; entities &copy; here",
    "\\*not emphasis\\* and \\[not a link\\]",
    "1) paren list\n2) second",
    "+ plus list\n+ second",
    "* star list\n* second",
    "- item\n\n  continuation paragraph\n\n  - nested",
    "[[1]] and [[2|piped]] wiki links in a paragraph",
    "- a\n  - child of a\n- - b starts with a list\n  - c",
    "1. one\n   - sub\n2. - two starts with a list",
    "- a\n\n  para under a\n- - b",
    "[dot link](./1) and [parent link](../1)",
    "[ext link](1.md) [ext link 2](2.md)",
    "Term\n: definition style line",
    "***",
    "___",
    "<span>inline html</span> in a paragraph",
    "word word word word word word word word word word word word word word word word word word word word word word word word word word word word word word",
];

pub const WORDS: &[&str] = &[
    "alpha", "beta", "gamma", "delta", "omega", "über", "naïve", "日本", "x", "note", "idea", "rust", "graph",
    "tree", "leaf", "root", "zeta", "kappa", "Ünï", "42",
];

fn parent_of(key: &str) -> Vec<&str> {
    let mut p: Vec<&str> = key.split('/').collect();
    p.pop();
    p
}

/// relative link url from note `from` to note `to` (both library keys)
pub fn rel_url(from: &str, to: &str) -> String {
    let fp = parent_of(from);
    let tp: Vec<&str> = to.split('/').collect();
    let mut i = 0;
    while i < fp.len() && i + 1 < tp.len() && fp[i] == tp[i] {
        i += 1;
    }
    let mut out: Vec<String> = vec![];
    for _ in i..fp.len() {
        out.push("..".to_string());
    }
    for seg in &tp[i..] {
        out.push(seg.to_string());
    }
    out.join("/")
}

pub struct Render<'a> {
    pub from_key: &'a str,
}

impl<'a> Render<'a> {
    fn url(&self, key: &str, ext: bool) -> String {
        let u = rel_url(self.from_key, key);
        if ext {
            format!("{}.md", u)
        } else {
            u
        }
    }

    pub fn inlines(&self, inl: &[Inline]) -> String {
        let mut parts: Vec<String> = vec![];
        for i in inl {
            parts.push(match i {
                Inline::Word(w) => w.clone(),
                Inline::Link { text, key, ext } => format!("[{}]({})", text, self.url(key, *ext)),
                Inline::Wiki(k) => format!("[[{}]]", self.url(k, false)),
                Inline::WikiPiped(k, t) => format!("[[{}|{}]]", self.url(k, false), t),
                Inline::Url(u) => format!("[site]({})", u),
                Inline::Emph(x) => format!("*{}*", self.inlines(x)),
                Inline::Strong(x) => format!("**{}**", self.inlines(x)),
                Inline::Code(c) => format!("`{}`", c),
                Inline::Image(u) => format!("![img]({})", u),
            });
        }
        parts.join(" ")
    }

    fn block(&self, b: &Block, out: &mut Vec<String>) {
        match b {
            Block::Heading { level, inl, setext } => {
                let t = self.inlines(inl);
                if *setext && *level <= 2 && !t.is_empty() {
                    out.push(t);
                    out.push(if *level == 1 { "===".into() } else { "---".into() });
                } else {
                    out.push(format!("{} {}", "#".repeat(*level as usize), t));
                }
            }
            Block::Para(lines) => {
                for l in lines {
                    out.push(self.inlines(l));
                }
            }
            Block::List { ordered, items } => {
                for (n, item) in items.iter().enumerate() {
                    let marker = if *ordered { format!("{}. ", n + 1) } else { "- ".to_string() };
                    let indent = " ".repeat(marker.len());
                    let mut inner: Vec<String> = vec![];
                    self.blocks(item, &mut inner);
                    for (i, l) in inner.iter().enumerate() {
                        if i == 0 {
                            out.push(format!("{}{}", marker, l));
                        } else if l.is_empty() {
                            out.push(String::new());
                        } else {
                            out.push(format!("{}{}", indent, l));
                        }
                    }
                }
            }
            Block::BlockRef { text, key, ext } => out.push(format!("[{}]({})", text, self.url(key, *ext))),
            Block::WikiRef(k) => out.push(format!("[[{}]]", self.url(k, false))),
            Block::Code { lang, body } => {
                out.push(format!("```{}", lang.clone().unwrap_or_default()));
                for l in body.lines() {
                    out.push(l.to_string());
                }
                out.push("```".into());
            }
            Block::Quote(inner) => {
                let mut v: Vec<String> = vec![];
                self.blocks(inner, &mut v);
                for l in v {
                    if l.is_empty() {
                        out.push(">".into());
                    } else {
                        out.push(format!("> {}", l));
                    }
                }
            }
            Block::Table { header, rows } => {
                out.push(format!("| {} |", header.iter().map(|c| self.inlines(c)).collect::<Vec<_>>().join(" | ")));
                out.push(format!("|{}|", header.iter().map(|_| "---").collect::<Vec<_>>().join("|")));
                for r in rows {
                    out.push(format!("| {} |", r.iter().map(|c| self.inlines(c)).collect::<Vec<_>>().join(" | ")));
                }
            }
            Block::Rule => out.push("***".into()),
            Block::Raw(t) => {
                for l in t.split('\n') {
                    out.push(l.to_string());
                }
            }
        }
    }

    pub fn blocks(&self, bs: &[Block], out: &mut Vec<String>) {
        for (i, b) in bs.iter().enumerate() {
            if i > 0 {
                out.push(String::new());
            }
            self.block(b, out);
        }
    }

    pub fn doc(&self, d: &Doc) -> String {
        let mut out: Vec<String> = vec![];
        if let Some(f) = &d.front {
            out.push("---".into());
            out.push(f.clone());
            out.push("---".into());
            if !d.blocks.is_empty() {
                out.push(String::new());
            }
        }
        self.blocks(&d.blocks, &mut out);
        let mut s = out.join("\n");
        if d.trailing_newline && !s.is_empty() {
            s.push('\n');
        }
        if d.bom {
            s.insert(0, '\u{feff}');
        }
        s
    }
}

pub fn render(from_key: &str, d: &Doc) -> String {
    Render { from_key }.doc(d)
}

/// Parameters of a generated library.
#[derive(Clone, Debug)]
pub struct GenCfg {
    pub keys: Vec<String>,
    /// keys that may be referenced (library keys + future keys + dangling)
    pub targets: Vec<String>,
    pub max_blocks: usize,
    pub max_depth: usize,
}

pub struct Gen<'a> {
    pub rng: &'a mut Rng,
    pub cfg: &'a GenCfg,
}

impl<'a> Gen<'a> {
    pub fn word(&mut self) -> String {
        self.rng.pick(WORDS).to_string()
    }

    pub fn words(&mut self, lo: usize, hi: usize) -> Vec<Inline> {
        let n = self.rng.range(lo, hi);
        (0..n).map(|_| Inline::Word(self.word())).collect()
    }

    pub fn target(&mut self) -> String {
        self.rng.pick(&self.cfg.targets).clone()
    }

    pub fn link(&mut self) -> Inline {
        let key = self.target();
        match self.rng.below(10) {
            0 => Inline::Wiki(key),
            1 => Inline::WikiPiped(key, self.word()),
            2 => Inline::Link { text: self.word(), key, ext: true },
            _ => Inline::Link { text: self.word(), key, ext: false },
        }
    }

    pub fn inlines(&mut self, link_chance: u32) -> Vec<Inline> {
        let mut v = self.words(1, 4);
        if self.rng.chance(link_chance, 100) {
            let l = self.link();
            let pos = self.rng.below(v.len() + 1);
            v.insert(pos, l);
        }
        if self.rng.chance(8, 100) {
            let w = self.words(1, 2);
            let pos = self.rng.below(v.len() + 1);
            v.insert(pos, if self.rng.chance(1, 2) { Inline::Emph(w) } else { Inline::Strong(w) });
        }
        if self.rng.chance(4, 100) {
            let l = self.link();
            let pos = self.rng.below(v.len() + 1);
            v.insert(pos, Inline::Emph(vec![l]));
        }
        if self.rng.chance(4, 100) {
            let pos = self.rng.below(v.len() + 1);
            v.insert(pos, Inline::Code(self.word()));
        }
        if self.rng.chance(3, 100) {
            let pos = self.rng.below(v.len() + 1);
            v.insert(pos, Inline::Url("https://example.com/a".into()));
        }
        if self.rng.chance(2, 100) {
            let pos = self.rng.below(v.len() + 1);
            v.insert(pos, Inline::Image("pic.png".into()));
        }
        v
    }

    pub fn para(&mut self) -> Block {
        let n = if self.rng.chance(1, 5) { 2 } else { 1 };
        Block::Para((0..n).map(|_| self.inlines(30)).collect())
    }

    pub fn block_ref(&mut self) -> Block {
        let key = self.target();
        match self.rng.below(8) {
            0 => Block::WikiRef(key),
            1 => Block::BlockRef { text: self.word(), key, ext: true },
            _ => Block::BlockRef { text: self.word(), key, ext: false },
        }
    }

    pub fn heading(&mut self) -> Block {
        let level = *self.rng.pick(&[1u8, 1, 2, 2, 2, 3, 3, 4, 6]);
        if self.rng.chance(1, 30) {
            // a very long line (a few hundred bytes, multi-byte characters anywhere)
            return Block::Heading { level, inl: self.words(40, 90), setext: false };
        }
        Block::Heading { level, inl: self.inlines(10), setext: self.rng.chance(1, 10) }
    }

    pub fn list(&mut self, depth: usize) -> Block {
        let n = self.rng.range(1, 3);
        let mut items = vec![];
        for _ in 0..n {
            // first block of an item is always a paragraph or a block reference (carve-out c03-shapes)
            let mut item = vec![if self.rng.chance(1, 6) { self.block_ref() } else { Block::Para(vec![self.inlines(25)]) }];
            if depth < self.cfg.max_depth && self.rng.chance(1, 4) {
                item.push(self.list(depth + 1));
            } else if self.rng.chance(1, 10) {
                item.push(self.para());
            }
            items.push(item);
        }
        Block::List { ordered: self.rng.chance(1, 3), items }
    }

    pub fn table(&mut self) -> Block {
        let cols = self.rng.range(1, 3);
        let header = (0..cols).map(|_| self.inlines(15)).collect();
        let nrows = self.rng.range(0, 2);
        let rows = (0..nrows).map(|_| (0..cols).map(|_| self.inlines(20)).collect()).collect();
        Block::Table { header, rows }
    }

    pub fn quote(&mut self, depth: usize) -> Block {
        let n = self.rng.range(1, 2);
        let mut inner = vec![];
        for _ in 0..n {
            inner.push(match self.rng.below(6) {
                0 => self.block_ref(),
                1 if depth < self.cfg.max_depth => self.list(depth + 1),
                _ => self.para(),
            });
        }
        Block::Quote(inner)
    }

    pub fn code(&mut self) -> Block {
        let lang = if self.rng.chance(1, 2) { Some("rust".to_string()) } else { None };
        let body = if self.rng.chance(1, 3) { format!("let {} = 1;\n[{}](1)", self.word(), self.word()) } else { format!("{} {}", self.word(), self.word()) };
        Block::Code { lang, body }
    }

    pub fn block(&mut self) -> Block {
        if self.rng.chance(1, 12) {
            return Block::Raw(self.rng.pick(ZOO).to_string());
        }
        if self.rng.chance(1, 20) {
            // blocks without content: an empty quote, empty list items
            return match self.rng.below(4) {
                0 => Block::Raw(">".into()),
                1 => Block::Raw("-".into()),
                2 => Block::Raw(format!("- {}\n-\n- {}", self.word(), self.word())),
                _ => Block::Raw("1.".into()),
            };
        }
        match self.rng.weighted(&[22, 24, 14, 14, 5, 6, 7, 3]) {
            0 => self.heading(),
            1 => self.para(),
            2 => self.list(1),
            3 => self.block_ref(),
            4 => self.code(),
            5 => self.quote(1),
            6 => self.table(),
            _ => Block::Rule,
        }
    }

    pub fn doc(&mut self) -> Doc {
        let mut blocks = vec![];
        if self.rng.chance(1, 25) {
            // empty note, sometimes with nothing but front matter
            let front = if self.rng.chance(1, 3) { Some(format!("title: {}", self.word())) } else { None };
            return Doc { front, blocks, trailing_newline: self.rng.chance(1, 2), bom: false };
        }
        if self.rng.chance(4, 5) {
            blocks.push(Block::Heading { level: *self.rng.pick(&[1u8, 1, 1, 2, 3]), inl: self.inlines(5), setext: self.rng.chance(1, 12) });
        }
        let n = self.rng.range(0, self.cfg.max_blocks);
        for _ in 0..n {
            blocks.push(self.block());
        }
        if self.rng.chance(1, 60) {
            // a long flat note: many blocks in a row on one level (sibling chains, not nesting)
            let m = if self.rng.chance(1, 4) { self.rng.range(260, 400) } else { self.rng.range(60, 90) };
            for i in 0..m {
                if i % 9 == 4 {
                    blocks.push(Block::Heading { level: 2, inl: self.words(1, 2), setext: false });
                } else if i % 50 == 49 {
                    let l = self.link();
                    blocks.push(Block::Para(vec![vec![Inline::Word("late".into()), l]]));
                } else {
                    blocks.push(Block::Para(vec![self.words(1, 2)]));
                }
            }
        }
        let front = if self.rng.chance(1, 10) { Some(format!("title: {}", self.word())) } else { None };
        Doc { front, blocks, trailing_newline: self.rng.chance(4, 5), bom: self.rng.chance(1, 60) }
    }
}

// ------------------------------------------------------------------------------------------------
// structured mutations

fn inl_refs_key(inl: &[Inline], key: &str) -> bool {
    inl.iter().any(|i| match i {
        Inline::Link { key: k, .. } | Inline::Wiki(k) | Inline::WikiPiped(k, _) => k == key,
        Inline::Emph(x) | Inline::Strong(x) => inl_refs_key(x, key),
        _ => false,
    })
}

fn strip_key_inl(inl: &mut Vec<Inline>, key: &str) {
    inl.retain(|i| match i {
        Inline::Link { key: k, .. } | Inline::Wiki(k) | Inline::WikiPiped(k, _) => k != key,
        Inline::Emph(x) | Inline::Strong(x) => !inl_refs_key(x, key),
        _ => true,
    });
    if inl.is_empty() {
        inl.push(Inline::Word("gone".into()));
    }
}

/// remove every reference (block or inline) to `key` from the blocks
pub fn strip_key(blocks: &mut Vec<Block>, key: &str) {
    blocks.retain(|b| match b {
        Block::BlockRef { key: k, .. } | Block::WikiRef(k) => k != key,
        _ => true,
    });
    for b in blocks.iter_mut() {
        match b {
            Block::Heading { inl, .. } => strip_key_inl(inl, key),
            Block::Para(lines) => lines.iter_mut().for_each(|l| strip_key_inl(l, key)),
            Block::List { items, .. } => {
                for it in items.iter_mut() {
                    strip_key(it, key);
                    if it.is_empty() || !matches!(it[0], Block::Para(_) | Block::BlockRef { .. } | Block::WikiRef(_)) {
                        it.insert(0, Block::Para(vec![vec![Inline::Word("gone".into())]]));
                    }
                }
            }
            Block::Quote(inner) => {
                strip_key(inner, key);
                if inner.is_empty() {
                    inner.push(Block::Para(vec![vec![Inline::Word("gone".into())]]));
                }
            }
            Block::Table { header, rows } => {
                header.iter_mut().for_each(|c| strip_key_inl(c, key));
                rows.iter_mut().for_each(|r| r.iter_mut().for_each(|c| strip_key_inl(c, key)));
            }
            _ => {}
        }
    }
}

pub fn referenced_keys(blocks: &[Block], out: &mut Vec<String>) {
    fn inl(i: &[Inline], out: &mut Vec<String>) {
        for x in i {
            match x {
                Inline::Link { key, .. } | Inline::Wiki(key) | Inline::WikiPiped(key, _) => out.push(key.clone()),
                Inline::Emph(v) | Inline::Strong(v) => inl(v, out),
                _ => {}
            }
        }
    }
    for b in blocks {
        match b {
            Block::BlockRef { key, .. } | Block::WikiRef(key) => out.push(key.clone()),
            Block::Heading { inl: i, .. } => inl(i, out),
            Block::Para(lines) => lines.iter().for_each(|l| inl(l, out)),
            Block::List { items, .. } => items.iter().for_each(|it| referenced_keys(it, out)),
            Block::Quote(inner) => referenced_keys(inner, out),
            Block::Table { header, rows } => {
                header.iter().for_each(|c| inl(c, out));
                rows.iter().for_each(|r| r.iter().for_each(|c| inl(c, out)));
            }
            _ => {}
        }
    }
}

pub const MUTATIONS: &[&str] = &[
    "remove_first_heading",
    "rename_first_heading",
    "add_top_heading",
    "strip_refs_to_key",
    "add_block_ref",
    "add_inline_link",
    "blocks_after_table",
    "insert_table_front",
    "ref_into_list",
    "ref_into_quote",
    "link_into_heading",
    "empty_note",
    "toggle_front_matter",
    "fresh_document",
    "same_text",
    "delete_block",
    "duplicate_block",
    "change_heading_level",
    "append_block",
    "swap_blocks",
    "toggle_trailing_newline",
    "trailing_blank_lines",
    "end_with_special_block",
    "insert_zoo_construct",
    "toggle_bom",
    "blank_first_heading",
];

/// Apply mutation `m` (index into MUTATIONS) to `doc`. Returns the name applied.
pub fn mutate(g: &mut Gen, doc: &mut Doc, m: usize, version: &str) -> &'static str {
    let name = MUTATIONS[m % MUTATIONS.len()];
    let first_heading = doc.blocks.iter().position(|b| matches!(b, Block::Heading { .. }));
    match name {
        "remove_first_heading" => {
            if let Some(i) = first_heading {
                doc.blocks.remove(i);
            }
        }
        "rename_first_heading" => {
            if let Some(i) = first_heading {
                if let Block::Heading { inl, .. } = &mut doc.blocks[i] {
                    inl.retain(|x| !matches!(x, Inline::Word(w) if w.starts_with('v')));
                    inl.push(Inline::Word(version.to_string()));
                }
            } else {
                doc.blocks.insert(0, Block::Heading { level: 1, inl: vec![Inline::Word(version.to_string())], setext: false });
            }
        }
        "add_top_heading" => {
            let mut inl = g.words(1, 2);
            inl.push(Inline::Word(version.to_string()));
            doc.blocks.insert(0, Block::Heading { level: *g.rng.pick(&[1u8, 2]), inl, setext: false });
        }
        "strip_refs_to_key" => {
            let mut ks = vec![];
            referenced_keys(&doc.blocks, &mut ks);
            if !ks.is_empty() {
                let k = g.rng.pick(&ks).clone();
                strip_key(&mut doc.blocks, &k);
            }
        }
        "add_block_ref" => {
            let b = g.block_ref();
            let pos = g.rng.below(doc.blocks.len() + 1);
            doc.blocks.insert(pos, b);
        }
        "add_inline_link" => {
            let l = g.link();
            let mut cands: Vec<usize> = vec![];
            for (i, b) in doc.blocks.iter().enumerate() {
                if matches!(b, Block::Para(_) | Block::Heading { .. } | Block::Table { .. } | Block::List { .. }) {
                    cands.push(i);
                }
            }
            if cands.is_empty() {
                doc.blocks.push(Block::Para(vec![vec![Inline::Word(g.word()), l]]));
            } else {
                let i = *g.rng.pick(&cands);
                match &mut doc.blocks[i] {
                    Block::Para(lines) => lines[0].push(l),
                    Block::Heading { inl, .. } => inl.push(l),
                    Block::Table { header, rows } => {
                        if let Some(r) = rows.last_mut() {
                            r[0].push(l)
                        } else {
                            header[0].push(l)
                        }
                    }
                    Block::List { items, .. } => {
                        if let Some(Block::Para(lines)) = items[0].get_mut(0) {
                            lines[0].push(l)
                        }
                    }
                    _ => {}
                }
            }
        }
        "blocks_after_table" => {
            let t = doc.blocks.iter().position(|b| matches!(b, Block::Table { .. }));
            match t {
                Some(i) => {
                    if g.rng.chance(1, 2) && i + 1 < doc.blocks.len() {
                        doc.blocks.truncate(i + 1);
                    } else {
                        let b = if g.rng.chance(1, 2) { g.block_ref() } else { Block::Para(vec![vec![Inline::Word(g.word()), g.link()]]) };
                        doc.blocks.insert(i + 1, b);
                    }
                }
                None => {
                    let t = g.table();
                    doc.blocks.push(t);
                    let b = g.block_ref();
                    doc.blocks.push(b);
                    let p = Block::Para(vec![vec![Inline::Word(g.word()), g.link()]]);
                    doc.blocks.push(p);
                }
            }
        }
        "insert_table_front" => {
            let t = g.table();
            let pos = if first_heading == Some(0) { 1 } else { 0 };
            doc.blocks.insert(pos.min(doc.blocks.len()), t);
        }
        "ref_into_list" => {
            let r = doc.blocks.iter().position(|b| matches!(b, Block::BlockRef { .. } | Block::WikiRef(_)));
            let b = match r {
                Some(i) => doc.blocks.remove(i),
                None => g.block_ref(),
            };
            let pos = g.rng.below(doc.blocks.len() + 1);
            doc.blocks.insert(pos, Block::List { ordered: false, items: vec![vec![b]] });
        }
        "ref_into_quote" => {
            let r = doc.blocks.iter().position(|b| matches!(b, Block::BlockRef { .. } | Block::WikiRef(_)));
            let b = match r {
                Some(i) => doc.blocks.remove(i),
                None => g.block_ref(),
            };
            let pos = g.rng.below(doc.blocks.len() + 1);
            doc.blocks.insert(pos, Block::Quote(vec![b]));
        }
        "link_into_heading" => {
            let l = g.link();
            match first_heading {
                Some(i) => {
                    if let Block::Heading { inl, .. } = &mut doc.blocks[i] {
                        inl.push(l)
                    }
                }
                None => doc.blocks.insert(0, Block::Heading { level: 1, inl: vec![Inline::Word(g.word()), l], setext: false }),
            }
        }
        "empty_note" => {
            doc.blocks.clear();
            doc.front = None;
        }
        "toggle_front_matter" => {
            doc.front = if doc.front.is_some() { None } else { Some(format!("title: {}", g.word())) };
        }
        "fresh_document" => {
            *doc = g.doc();
        }
        "same_text" => {}
        "delete_block" => {
            if !doc.blocks.is_empty() {
                let i = g.rng.below(doc.blocks.len());
                doc.blocks.remove(i);
            }
        }
        "duplicate_block" => {
            if !doc.blocks.is_empty() {
                let i = g.rng.below(doc.blocks.len());
                let b = doc.blocks[i].clone();
                let pos = g.rng.below(doc.blocks.len() + 1);
                doc.blocks.insert(pos, b);
            }
        }
        "change_heading_level" => {
            let hs: Vec<usize> = doc.blocks.iter().enumerate().filter(|(_, b)| matches!(b, Block::Heading { .. })).map(|(i, _)| i).collect();
            if !hs.is_empty() {
                let i = *g.rng.pick(&hs);
                if let Block::Heading { level, setext, .. } = &mut doc.blocks[i] {
                    *level = *g.rng.pick(&[1u8, 2, 3, 4, 5, 6]);
                    *setext = false;
                }
            }
        }
        "append_block" => {
            let b = g.block();
            doc.blocks.push(b);
        }
        "toggle_trailing_newline" => {
            doc.trailing_newline = !doc.trailing_newline;
        }
        "trailing_blank_lines" => {
            // only the white space at the very end of the file changes
            match doc.blocks.last() {
                Some(Block::Raw(t)) if t.trim().is_empty() => {
                    doc.blocks.pop();
                }
                _ => doc.blocks.push(Block::Raw(if g.rng.chance(1, 2) { "".into() } else { "\n".into() })),
            }
        }
        "end_with_special_block" => {
            // blocks whose extent depends on how the file ends
            while matches!(doc.blocks.last(), Some(Block::Raw(t)) if t.trim().is_empty()) {
                doc.blocks.pop();
            }
            let b = match g.rng.below(5) {
                0 => Block::Heading { level: 2, inl: g.words(1, 3), setext: true },
                1 => g.table(),
                2 => Block::Raw(format!("```\n{} {}", g.word(), g.word())),
                3 => Block::Raw(format!("> {}\n>", g.word())),
                _ => Block::Raw(format!("$$\n{} = 1", g.word())),
            };
            doc.blocks.push(b);
            doc.trailing_newline = g.rng.chance(1, 2);
        }
        "insert_zoo_construct" => {
            let b = Block::Raw(g.rng.pick(ZOO).to_string());
            let pos = g.rng.below(doc.blocks.len() + 1);
            doc.blocks.insert(pos, b);
        }
        "toggle_bom" => {
            doc.bom = !doc.bom;
        }
        "blank_first_heading" => {
            let b = Block::Raw(g.rng.pick(&["#", "# ![](logo.png)", "# [](1)", "## &nbsp;"]).to_string());
            match first_heading {
                Some(i) => doc.blocks[i] = b,
                None => doc.blocks.insert(0, b),
            }
        }
        "swap_blocks" => {
            if doc.blocks.len() >= 2 {
                let i = g.rng.below(doc.blocks.len());
                let j = g.rng.below(doc.blocks.len());
                doc.blocks.swap(i, j);
            }
        }
        _ => {}
    }
    name
}

/// Standard key pools. `n` library notes; keys beyond live in sub-directories.
pub fn key_pool(n: usize, with_dirs: bool) -> Vec<String> {
    let mut v = vec![];
    for i in 1..=n {
        let k = if with_dirs && i % 4 == 0 {
            format!("d/e/{}", i)
        } else if with_dirs && i % 3 == 0 {
            format!("d/{}", i)
        } else {
            format!("{}", i)
        };
        v.push(k);
    }
    v
}

/// Key pool with the name shapes editors and file systems meet: blanks, non-ASCII, the same file name in two
/// directories, dots, percent signs. `flavour` 0 = plain (`key_pool`), otherwise a mix.
pub fn rich_key_pool(n: usize, with_dirs: bool, flavour: u64, rng: &mut Rng) -> Vec<String> {
    if flavour == 0 {
        return key_pool(n, with_dirs);
    }
    let mut names = vec!["1", "2", "3", "4", "readme", "my note", "über", "c.d", "x%20y", "a+b", "日本", "UPPER", "2024-01-01", "idea", "Todo", "todo", "2024.01.15", "2024.01"];
    if flavour == 2 {
        // a literal per-cent sign that is not the start of an escape: the editor sends it as %25
        names.extend(["100%", "50% done", "a%zz", "100%", "50% done"]);
    }
    let dirs: Vec<&str> = if with_dirs { vec!["", "", "projects", "archive", "with space", "d/e"] } else { vec![""] };
    let mut v: Vec<String> = vec![];
    let mut guard = 0;
    while v.len() < n && guard < 400 {
        guard += 1;
        let d = *rng.pick(&dirs);
        let name = *rng.pick(&names);
        let k = if d.is_empty() { name.to_string() } else { format!("{}/{}", d, name) };
        if !v.contains(&k) {
            v.push(k);
        }
    }
    // the same file name in two directories (a bare link to it is then ambiguous by construction)
    if with_dirs && n >= 3 && !v.iter().any(|k| k == "projects/readme") {
        v[0] = "projects/readme".into();
        if !v.iter().any(|k| k == "archive/readme") {
            v[1] = "archive/readme".into();
        }
    }
    while v.len() < n {
        v.push(format!("n{}", v.len()));
    }
    v
}

/// a paragraph block of about `bytes` bytes (few blocks, long lines: size without sibling depth)
pub fn big_paragraphs(bytes: usize, rng: &mut Rng) -> Vec<Block> {
    let mut out = vec![];
    let mut left = bytes;
    while left > 0 {
        let n = left.min(4096);
        let mut words = vec![];
        let mut len = 0;
        while len < n {
            let w = rng.pick(WORDS).to_string();
            len += w.len() + 1;
            words.push(Inline::Word(w));
        }
        out.push(Block::Para(vec![words]));
        left = left.saturating_sub(n);
    }
    out
}
