//! sim — deterministic simulation with fault injection for iwe-org/iwe. See /verif/DESIGN.md.
//!
//!   sim check <Cxx> quick|thorough      run the property's check, write evidence, exit 0/1/2
//!   sim replay <file>                   re-execute a replay file, exit 1 iff the violation reappears
//!   sim selftest <world>                determinism proof: every seed twice, at two worker counts
//!   sim worker ...                      internal

mod a_check;
mod canon;
mod entropy;
mod f_check;
mod gen;
mod h_check;
mod p_check;
mod rng;
mod runner;
mod sched;
mod stdio_check;
mod walker;
mod world_a;
mod world_f;
mod world_h;
mod world_p;

use std::time::Instant;

fn usage() -> ! {
    eprintln!("usage: sim check <C04|C11|C12|C16|C19|C20> <quick|thorough> | sim replay <file> | sim selftest <H|A|P|F> | sim worker ...");
    std::process::exit(2)
}

struct FormattingSink;
impl log::Log for FormattingSink {
    fn enabled(&self, _: &log::Metadata) -> bool {
        true
    }
    fn log(&self, record: &log::Record) {
        // format like a real logger would (so that whatever the message computes is computed), keep nothing
        let s = format!("{}", record.args());
        std::hint::black_box(s);
    }
    fn flush(&self) {}
}
static SINK: FormattingSink = FormattingSink;

/// the configuration `IWE_DEBUG=1` of the shipped binaries: debug-level logging switched on
pub fn enable_debug_logging() {
    let _ = log::set_logger(&SINK);
    log::set_max_level(log::LevelFilter::Debug);
}

pub fn quiet_panics() {
    if std::env::var("VERIF_SHOW_PANICS").is_ok() {
        return;
    }
    std::panic::set_hook(Box::new(|_| {}));
}

fn main() {
    let args: Vec<String> = std::env::args().collect();
    if args.len() < 2 {
        usage();
    }
    let started = Instant::now();
    let code = match args[1].as_str() {
        "worker" => {
            if args.len() < 8 {
                usage();
            }
            let world = args[2].as_str();
            let tier = args[3].as_str();
            let seed: u64 = args[4].parse().unwrap();
            let from: u64 = args[5].parse().unwrap();
            let to: u64 = args[6].parse().unwrap();
            let out = &args[7];
            std::env::set_var("VERIF_WORKER_OUT", out);
            let extra = &args[8..];
            if extra.iter().any(|e| e == "debuglog") {
                enable_debug_logging();
            }
            let agg = match world {
                "H" => h_check::worker(tier, seed, from, to, extra),
                "A" => a_check::worker(tier, seed, from, to, extra),
                "F" => f_check::worker(tier, seed, from, to, extra),
                "P" => p_check::worker(tier, seed, from, to, extra),
                _ => usage(),
            };
            std::fs::write(out, serde_json::to_string(&agg).unwrap()).unwrap();
            0
        }
        "check" => {
            if args.len() < 4 {
                usage();
            }
            let prop = args[2].as_str();
            let tier = args[3].as_str();
            if tier != "quick" && tier != "thorough" {
                usage();
            }
            match prop {
                "C04" | "C20" => h_check::check(prop, tier, started),
                "C11" | "C12" => a_check::check(prop, tier, started),
                "C19" => f_check::check(tier, started),
                "C16" => p_check::check(tier, started),
                _ => usage(),
            }
        }
        "replay" => {
            if args.len() < 3 {
                usage();
            }
            let text = std::fs::read_to_string(&args[2]).unwrap_or_else(|e| {
                eprintln!("HARNESS-ERROR: cannot read {}: {}", args[2], e);
                std::process::exit(2)
            });
            let v: serde_json::Value = serde_json::from_str(&text).unwrap_or_else(|e| {
                eprintln!("HARNESS-ERROR: cannot parse {}: {}", args[2], e);
                std::process::exit(2)
            });
            match v["world"].as_str() {
                Some("H") => h_check::replay(&v, &args[2]),
                Some("A") | Some("A-stdio") => a_check::replay(&v, &args[2]),
                Some("F") => f_check::replay(&v, &args[2]),
                Some("P") => p_check::replay(&v, &args[2]),
                _ => {
                    eprintln!("HARNESS-ERROR: unknown world in replay file");
                    2
                }
            }
        }
        "selftest" => {
            if args.len() < 3 {
                usage();
            }
            match args[2].as_str() {
                "H" => h_check::selftest(),
                "A" => a_check::selftest(),
                "F" => f_check::selftest(),
                "P" => p_check::selftest(),
                _ => usage(),
            }
        }
        _ => usage(),
    };
    std::process::exit(code);
}
