//! C16 — results do not depend on thread count, load order or hash seeds (world P).

use std::path::{Path, PathBuf};
use std::time::Instant;

use serde::{Deserialize, Serialize};
use serde_json::{json, Value};

use crate::rng::{self, Rng};
use crate::runner::{self, Agg, EvidenceIn, Failure};
use crate::world_f::{self, FileSpec, RunCfg, Tree};
use crate::world_p::{self, Library, Variant};

#[derive(Clone, Debug, Serialize, Deserialize, PartialEq)]
pub struct CliVariant {
    pub threads: usize,
    pub readdir: u64,
    pub entropy: u64,
    pub label: String,
}

#[derive(Clone, Debug, Serialize, Deserialize)]
pub struct Case {
    pub library: Library,
    #[serde(default)]
    pub variant: Option<Variant>,
    #[serde(default)]
    pub cli: Option<CliVariant>,
    /// CLI command line (empty for in-process variants)
    #[serde(default)]
    pub command: Vec<String>,
}

fn iwe_bin() -> PathBuf {
    std::env::var("VERIF_IWE_BIN").map(PathBuf::from).unwrap_or_else(|_| runner::verif_path("target/iwe/release/iwe"))
}
fn shim() -> PathBuf {
    runner::verif_path("target/libsimlibc.so")
}

pub fn runs_for(tier: &str) -> u64 {
    if let Ok(v) = std::env::var("VERIF_RUNS") {
        if let Ok(n) = v.parse() {
            return n;
        }
    }
    match tier {
        "thorough" => 6000,
        _ => 2400,
    }
}

fn tree_of(lib: &Library) -> Tree {
    let mut files: Vec<FileSpec> = lib.notes.iter().map(|(k, t)| FileSpec { rel: format!("{}.md", k), text: Some(t.clone()), bytes: None, mode: 0o644, symlink: None }).collect();
    let has_config = !lib.refs_ext.is_empty();
    if has_config {
        files.push(FileSpec { rel: ".iwe/config.toml".into(), text: Some(format!("prompt_key_prefix = \"prompt\"\n\n[markdown]\nrefs_extension = \"{}\"\n\n[library]\npath = \"\"\n\n[models]\n\n[actions]\n", lib.refs_ext)), bytes: None, mode: 0o644, symlink: None });
    }
    Tree { files, empty_dirs: vec![], library: String::new(), refs_ext: lib.refs_ext.clone(), has_config }
}

/// stdout (and for normalize the resulting note files) of one CLI execution
fn cli_output(lib: &Library, cmd: &[String], v: &CliVariant, scratch: &Path) -> Result<String, String> {
    let root = scratch.join("root");
    let _ = std::fs::remove_dir_all(&root);
    world_f::materialise(&tree_of(lib), &root).map_err(|e| e.to_string())?;
    let iwe = iwe_bin();
    let sh = shim();
    let cfg = RunCfg { iwe: &iwe, shim: &sh, entropy: v.entropy, readdir: v.readdir, threads: v.threads, plan: None };
    let args: Vec<&str> = cmd.iter().map(|s| s.as_str()).collect();
    let (res, stdout) = world_f::run_iwe(&root, scratch, &args, &cfg).map_err(|e| e.to_string())?;
    let mut out = format!("exit={}\n{}", res.exit_code, String::from_utf8_lossy(&stdout));
    if cmd.first().map(|s| s.as_str()) == Some("normalize") {
        for (rel, s) in world_f::snapshot(&root) {
            if !rel.ends_with('/') {
                out.push_str(&format!("\n--- {} ---\n{}", rel, String::from_utf8_lossy(&s.bytes)));
            }
        }
    }
    let _ = std::fs::remove_dir_all(&root);
    Ok(out)
}

fn cli_variants(seed: u64) -> Vec<CliVariant> {
    let mut r = Rng::stream(seed, "cli-variants");
    vec![
        CliVariant { threads: *r.pick(&[2usize, 4, 8, 16]), readdir: 0, entropy: 1, label: "cli-threads".into() },
        CliVariant { threads: 1, readdir: r.next() | 1, entropy: 1, label: "cli-readdir-order".into() },
        CliVariant { threads: 1, readdir: 0, entropy: r.next() | 3, label: "cli-hash-seed".into() },
        CliVariant { threads: *r.pick(&[2usize, 4, 8]), readdir: r.next() | 1, entropy: r.next() | 3, label: "cli-combined".into() },
    ]
}

fn cli_reference() -> CliVariant {
    CliVariant { threads: 1, readdir: 0, entropy: 1, label: "cli-reference".into() }
}

pub fn worker(tier: &str, seed: u64, from: u64, to: u64, _extra: &[String]) -> Agg {
    crate::quiet_panics();
    crate::entropy::settle_long_lived_threads();
    let t0 = Instant::now();
    let thorough = tier == "thorough";
    let mut agg = Agg::default();
    let scratch = runner::verif_path(&format!("target/scratch/p-{}", std::process::id()));
    let _ = std::fs::create_dir_all(&scratch);
    let progress_file = std::env::var("VERIF_WORKER_OUT").unwrap_or_default();
    let stride = runner::stride_of(_extra);
    let mut i = from;
    while i < to {
        let this_i = i;
        i += stride;
        let i = this_i;
        if !progress_file.is_empty() {
            runner::note_progress(&progress_file, i);
        }
        let s = runner::run_seed(seed, i);
        let lib = world_p::generate(s, thorough);
        let n = lib.notes.len();
        let reference = match world_p::run_variant(&lib, &world_p::reference_variant()) {
            Ok(d) => d,
            Err(_) => {
                agg.discarded += 1;
                agg.runs += 1;
                continue;
            }
        };
        agg.count("libraries", 1);
        agg.count("notes", n as u64);
        if n > 16 {
            agg.probe("library-larger-than-every-pool", 1);
        }
        if reference.iter().find(|(l, _)| l == "search_paths").map(|(_, sp)| sp.lines().count() >= 2000).unwrap_or(false) {
            agg.probe("library-with-2000+-search-paths", 1);
        }
        // ties present? (equal rank and key among search paths)
        if let Some((_, sp)) = reference.iter().find(|(l, _)| l == "search_paths") {
            let mut seen = std::collections::BTreeSet::new();
            for line in sp.lines() {
                let f: Vec<&str> = line.split('|').collect();
                if f.len() >= 5 && !seen.insert((f[1].to_string(), f[4].to_string())) {
                    agg.probe("rank-and-key-tie-among-search-paths", 1);
                    break;
                }
            }
        }
        for v in world_p::variants(s, n, thorough) {
            agg.runs += 1;
            let h = rng::mix2(s, rng::fnv(&format!("{:?}", v)));
            agg.distinct.insert(h);
            if n >= 2 {
                agg.distinct_nontrivial.insert(h);
            }
            agg.count(&format!("variant:{}{}", v.label, if world_p::is_controlled(&v) { "" } else { " (real rayon)" }), 1);
            let result = world_p::run_variant(&lib, &v);
            if world_p::is_controlled(&v) {
                agg.states.insert(world_p::LAST_HASH_ORDER.with(|c| c.get()));
            }
            match result {
                Err(e) => {
                    agg.fail(Failure { property: "C16".into(), signature: format!("{}/panic", v.label), run: i, seed: s, violation: json!({"variant": v, "detail": format!("variant panicked while the reference did not: {}", e)}), case: serde_json::to_value(Case { library: lib.clone(), variant: Some(v.clone()), cli: None, command: vec![] }).unwrap() });
                }
                Ok(d) => {
                    if let Some((label, got, want)) = world_p::first_diff(&d, &reference) {
                        agg.fail(Failure {
                            property: "C16".into(),
                            signature: format!("{}/{}", v.label, world_p::observable_class(&label)),
                            run: i,
                            seed: s,
                            violation: json!({"variant": v, "observable": label, "variant_value": clip(&got), "reference_value": clip(&want)}),
                            case: serde_json::to_value(Case { library: lib.clone(), variant: Some(v.clone()), cli: None, command: vec![] }).unwrap(),
                        });
                    }
                }
            }
        }
        // CLI: separate processes (fresh RandomState), readdir order, thread count
        let cli_every = if thorough { 2 } else { 4 };
        if n <= 40 && i % cli_every == 0 {
            let first_key = lib.notes.keys().next().cloned().unwrap_or_default();
            let cmds: Vec<Vec<String>> = vec![
                vec!["paths".into()],
                vec!["paths".into(), "-d".into(), "2".into()],
                vec!["contents".into()],
                vec!["squash".into(), "-k".into(), first_key.clone(), "-d".into(), "3".into()],
                vec!["normalize".into()],
            ];
            for cmd in cmds {
                let refout = match cli_output(&lib, &cmd, &cli_reference(), &scratch) {
                    Ok(o) => o,
                    Err(e) => {
                        agg.errors.push(format!("cli reference: {}", e));
                        continue;
                    }
                };
                for cv in cli_variants(s) {
                    agg.runs += 1;
                    agg.count(&format!("variant:{}", cv.label), 1);
                    let h = rng::mix2(s, rng::fnv(&format!("{:?}{:?}", cv, cmd)));
                    agg.distinct.insert(h);
                    if n >= 2 {
                        agg.distinct_nontrivial.insert(h);
                    }
                    match cli_output(&lib, &cmd, &cv, &scratch) {
                        Err(e) => agg.errors.push(format!("cli variant: {}", e)),
                        Ok(o) => {
                            if o != refout {
                                let (a, b) = first_line_diff(&o, &refout);
                                agg.fail(Failure {
                                    property: "C16".into(),
                                    signature: format!("{}/iwe-{}", cv.label, cmd[0]),
                                    run: i,
                                    seed: s,
                                    violation: json!({"cli_variant": cv, "command": cmd, "variant_line": a, "reference_line": b}),
                                    case: serde_json::to_value(Case { library: lib.clone(), variant: None, cli: Some(cv.clone()), command: cmd.clone() }).unwrap(),
                                });
                            }
                        }
                    }
                }
            }
        }
        if agg.samples.len() < 3 && n >= 2 && n <= 3 {
            agg.samples.push(json!({"seed": s, "library": lib, "variants": world_p::variants(s, n, thorough).iter().map(|v| format!("{} pool={} perm={} entropy={}", v.label, v.pool, v.perm_seed != 0, v.entropy)).collect::<Vec<_>>()}));
        }
    }
    let _ = std::fs::remove_dir_all(&scratch);
    agg.probe("rank-and-key-tie-among-search-paths", 0);
    agg.probe("library-larger-than-every-pool", 0);
    agg.wall_s = t0.elapsed().as_secs_f64();
    agg
}

fn clip(s: &str) -> String {
    s.chars().take(400).collect()
}

fn first_line_diff(a: &str, b: &str) -> (String, String) {
    let la: Vec<&str> = a.lines().collect();
    let lb: Vec<&str> = b.lines().collect();
    for i in 0..la.len().max(lb.len()) {
        if la.get(i) != lb.get(i) {
            return (format!("line {}: {}", i, la.get(i).unwrap_or(&"<absent>")), format!("line {}: {}", i, lb.get(i).unwrap_or(&"<absent>")));
        }
    }
    (String::new(), String::new())
}

/// does `case` still show `signature`? For variants with real rayon the execution is repeated.
fn reproduces(case: &Case, signature: &str, scratch: &Path, repeats: usize) -> (usize, usize, Option<Value>) {
    let mut hits = 0;
    let mut detail = None;
    let mut tries = 0;
    for _ in 0..repeats {
        tries += 1;
        if let Some(v) = &case.variant {
            let reference = match world_p::run_variant(&case.library, &world_p::reference_variant()) {
                Ok(r) => r,
                Err(_) => return (0, tries, None),
            };
            match world_p::run_variant(&case.library, v) {
                Err(e) => {
                    if format!("{}/panic", v.label) == signature {
                        hits += 1;
                        detail = Some(json!({"detail": e}));
                    }
                }
                Ok(d) => {
                    if let Some((label, got, want)) = world_p::first_diff(&d, &reference) {
                        if format!("{}/{}", v.label, world_p::observable_class(&label)) == signature {
                            hits += 1;
                            detail = Some(json!({"variant": v, "observable": label, "variant_value": clip(&got), "reference_value": clip(&want)}));
                        }
                    }
                }
            }
            if world_p::is_controlled(v) {
                break;
            }
        } else if let Some(cv) = &case.cli {
            let r = cli_output(&case.library, &case.command, &cli_reference(), scratch);
            let o = cli_output(&case.library, &case.command, cv, scratch);
            if let (Ok(r), Ok(o)) = (r, o) {
                if o != r && format!("{}/iwe-{}", cv.label, case.command[0]) == signature {
                    hits += 1;
                    let (a, b) = first_line_diff(&o, &r);
                    detail = Some(json!({"cli_variant": cv, "command": case.command, "variant_line": a, "reference_line": b}));
                }
            }
            if cv.threads == 1 {
                break;
            }
        }
    }
    (hits, tries, detail)
}

fn minimise(case: &Case, signature: &str, budget: usize, scratch: &Path) -> (Case, usize) {
    let mut best = case.clone();
    let mut used = 0;
    let reps = 3;
    // drop notes (chunks first)
    let mut chunk = (best.library.notes.len() / 2).max(1);
    while chunk >= 1 && used < budget {
        let keys: Vec<String> = best.library.notes.keys().cloned().collect();
        let mut i = 0;
        let mut progressed = false;
        while i < keys.len() && used < budget {
            let mut c = best.clone();
            for k in keys.iter().skip(i).take(chunk) {
                c.library.notes.remove(k);
            }
            if c.library.notes.is_empty() || (c.command.first().map(|s| s == "squash").unwrap_or(false) && !c.library.notes.contains_key(&c.command[2])) {
                i += chunk;
                continue;
            }
            used += 1;
            if reproduces(&c, signature, scratch, reps).0 > 0 {
                best = c;
                progressed = true;
                break;
            }
            i += chunk;
        }
        if !progressed {
            if chunk == 1 {
                break;
            }
            chunk /= 2;
        }
    }
    // shrink texts
    let keys: Vec<String> = best.library.notes.keys().cloned().collect();
    for k in keys {
        let mut parts: Vec<String> = best.library.notes[&k].split("\n\n").map(|s| s.to_string()).collect();
        let mut i = 0;
        while i < parts.len() && parts.len() > 1 && used < budget {
            let mut p2 = parts.clone();
            p2.remove(i);
            let mut c = best.clone();
            c.library.notes.insert(k.clone(), p2.join("\n\n"));
            used += 1;
            if reproduces(&c, signature, scratch, reps).0 > 0 {
                best = c;
                parts = p2;
            } else {
                i += 1;
            }
        }
    }
    (best, used)
}

pub fn check(tier: &str, started: Instant) -> i32 {
    crate::quiet_panics();
    crate::entropy::settle_long_lived_threads();
    let seed = runner::env_seed();
    let libs = runs_for(tier);
    if !iwe_bin().exists() || !shim().exists() {
        eprintln!("HARNESS-ERROR: {} or {} missing (run ./check setup)", iwe_bin().display(), shim().display());
        return 2;
    }
    // fewer worker processes than cores: variants themselves use pools of up to 16 threads
    let agg = match runner::fan_out("P", tier, seed, libs, runner::jobs().min(8), &[]) {
        Ok(a) => a,
        Err(e) => {
            eprintln!("HARNESS-ERROR: {}", e);
            return 2;
        }
    };
    if !agg.errors.is_empty() {
        eprintln!("HARNESS-ERROR: {} CLI executions failed to run, first: {}", agg.errors.len(), agg.errors[0]);
        return 2;
    }
    let scratch = runner::verif_path(&format!("target/scratch/p-{}", std::process::id()));
    let _ = std::fs::create_dir_all(&scratch);
    if !agg.aborted_runs.is_empty() {
        eprintln!("HARNESS-ERROR: a worker process died during run indexes {:?} (stack overflow or abort inside the system under test or the harness); reproduce with: sim worker <world> <tier> <seed> <i> <i+1> /tmp/x.json", agg.aborted_runs);
        return 2;
    }
    let findings = runner::load_findings();
    let mut violations = 0u64;
    let mut known_seen = vec![];
    let min_deadline = started.elapsed().as_secs() + 180;
    let mut minimise_left = 5;
    for (k, f) in &agg.failures {
        if let Some(kf) = runner::known(&findings, "C16", &f.signature) {
            println!("KNOWN-FINDING: property=C16 {} [signature {} seen in {} variants]", kf.what, f.signature, agg.failure_counts.get(k).copied().unwrap_or(0));
            known_seen.push(f.signature.clone());
            continue;
        }
        violations += 1;
        let case: Case = serde_json::from_value(f.case.clone()).expect("case");
        let (mcase, evals) = if minimise_left > 0 && started.elapsed().as_secs() < min_deadline {
            minimise_left -= 1;
            minimise(&case, &f.signature, 150, &scratch)
        } else {
            (case.clone(), 0)
        };
        let (hits, tries, detail) = reproduces(&mcase, &f.signature, &scratch, 50);
        let (final_case, detail, minimised) = if hits > 0 { (mcase, detail.unwrap_or(f.violation.clone()), evals > 0) } else { (case, f.violation.clone(), false) };
        let path = runner::replay_path(&format!("C16-{}-{}.json", f.seed, rng::fnv(&f.signature) % 100000));
        let rv = json!({"world": "P", "property": "C16", "signature": f.signature, "seed": f.seed, "run": f.run, "minimised": minimised, "minimiser_evaluations": evals,
            "reproduction_rate": format!("{}/{}", hits, tries), "violation": detail, "case": final_case, "how_to_replay": "cd /verif && ./check replay <this file>"});
        if let Err(e) = runner::write_json(&path, &rv) {
            eprintln!("HARNESS-ERROR: {}", e);
            return 2;
        }
        println!("VIOLATION property=C16 replay={}", path.display());
        println!("  signature={} variants_with_it={} first_seed={} reproduction={}/{}", f.signature, agg.failure_counts.get(k).copied().unwrap_or(0), f.seed, hits, tries);
        println!("  what: {}", serde_json::to_string(&rv["violation"]).unwrap_or_default().chars().take(500).collect::<String>());
    }
    let _ = std::fs::remove_dir_all(&scratch);
    let ev = EvidenceIn {
        property: "C16",
        tier,
        seed,
        level: "exploration",
        agg: &agg,
        rule: "A case is one (library, variant) pair: the library's canonical dump (formatted text, title, block- and inline-backlink sets per key; paths, search_paths and search results for the empty query and three words, in order) under a variant is compared byte for byte with the dump of the reference execution (pool of 1 thread, sorted insertion, fixed hash seed). Variants: rayon pool size 2..16; permuted insertion into the State map; different hash seed; Database::insert_document on an empty database in sorted and permuted order; combinations; and for libraries of <= 40 notes the real `iwe` binary (paths, paths -d 2, contents, squash, normalize) in fresh processes with other thread counts, readdir permutations and hash seeds. Distinct = (library seed, variant). Non-trivial = library has at least two notes.",
        real: &["liwe Graph::import/export/paths/search_paths, Database::new/insert_document/global_search", "rayon (pools of 1..16 real threads)", "iwe binary in fresh processes"],
        stubs: &["hash seeds (getrandom via LD_PRELOAD shim)", "readdir order (shim)", "insertion permutations (seeded)", "rayon work-stealing order is NOT controlled: pool>1 variants are real executions"],
        assumptions: &[
            "pool size 1, insertion order, readdir order and hash seed are under full control and replay exactly; variants with more than one rayon thread are real executions whose interleaving is not chosen by the simulator (no seam in rayon), so a failure that needs one is replayed up to 50 times and its reproduction rate recorded",
            "no alarm can come from timing itself: the oracle is equality with a deterministic reference",
        ],
        violations,
        known_findings: known_seen,
        extra: json!({"failure_signatures": agg.failure_counts, "explanation": "differential against the same code in its simplest execution mode"}),
        started,
    };
    if let Err(e) = runner::write_evidence(ev) {
        eprintln!("HARNESS-ERROR: {}", e);
        return 2;
    }
    println!("C16 {}: libraries={} variants={} distinct_nontrivial={} violations={} wall={:.1}s", tier, agg.counters.get("libraries").copied().unwrap_or(0), agg.runs, agg.distinct_nontrivial.len(), violations, started.elapsed().as_secs_f64());
    if violations > 0 {
        1
    } else {
        0
    }
}

pub fn replay(v: &Value, path: &str) -> i32 {
    crate::quiet_panics();
    crate::entropy::settle_long_lived_threads();
    let signature = v["signature"].as_str().unwrap_or("");
    let case: Case = match serde_json::from_value(v["case"].clone()) {
        Ok(c) => c,
        Err(e) => {
            eprintln!("HARNESS-ERROR: replay case does not parse: {}", e);
            return 2;
        }
    };
    let scratch = runner::verif_path(&format!("target/scratch/p-{}", std::process::id()));
    let _ = std::fs::create_dir_all(&scratch);
    let (hits, tries, detail) = reproduces(&case, signature, &scratch, 50);
    let _ = std::fs::remove_dir_all(&scratch);
    if hits > 0 {
        println!("VIOLATION property=C16 replay={}", path);
        println!("  reproduced {}/{}: {}", hits, tries, serde_json::to_string(&detail).unwrap_or_default().chars().take(600).collect::<String>());
        1
    } else {
        println!("not reproduced in {} executions: property=C16 signature={}", tries, signature);
        0
    }
}

pub fn selftest() -> i32 {
    let seed = runner::env_seed();
    let n = std::env::var("VERIF_RUNS").ok().and_then(|s| s.parse().ok()).unwrap_or(300u64);
    let a = runner::fan_out("P", "quick", seed, n, 2, &[]);
    let b = runner::fan_out("P", "quick", seed, n, 8, &[]);
    match (a, b) {
        (Ok(a), Ok(b)) => {
            let same = a.failure_counts == b.failure_counts && a.runs == b.runs && a.counters == b.counters;
            println!("selftest P: libraries={} variants={} vs {} identical verdicts and variant counts: {}", n, a.runs, b.runs, same);
            if same {
                0
            } else {
                2
            }
        }
        (a, b) => {
            eprintln!("HARNESS-ERROR: selftest: {:?} {:?}", a.err(), b.err());
            2
        }
    }
}
