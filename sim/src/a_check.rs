//! Checks built on world A: C11 (no edit notification is lost) and C12 (exactly one response, keeps serving).

use std::time::Instant;

use serde::{Deserialize, Serialize};
use serde_json::{json, Value};

use crate::runner::{self, Agg, EvidenceIn, Failure};
use crate::sched::{Choice, Mode, Policy, SchedError, POLICIES};
use crate::world_a::{self, Program, Trace, Violation};
use crate::{entropy, rng};

#[derive(Clone, Debug, Serialize, Deserialize)]
pub struct Case {
    pub program: Program,
    pub choices: Vec<Choice>,
    pub policy: String,
    /// "random" | "sequential"
    pub mode: String,
}

pub fn runs_for(prop: &str, tier: &str) -> u64 {
    if let Ok(v) = std::env::var("VERIF_RUNS") {
        if let Ok(n) = v.parse() {
            return n;
        }
    }
    match (prop, tier) {
        (_, "thorough") => 300_000,
        _ => 30_000,
    }
}

pub struct RunOut {
    pub trace: Trace,
    pub violations: Vec<Violation>,
}

pub fn run_case_with(seed: u64, program: &Program, mode: &mut Mode) -> Result<RunOut, SchedError> {
    entropy::set(rng::mix2(seed, rng::fnv("entropy")));
    let trace = match world_a::execute(program, mode, 40) {
        Ok(t) => t,
        Err(SchedError::Budget(choices)) => {
            let mut t = Trace::default();
            t.choices = choices;
            return Ok(RunOut {
                trace: t,
                violations: vec![Violation { property: "C12".into(), kind: "no_quiescence".into(), signature: "no_quiescence".into(), detail: "the server did not become quiescent within the step budget".into() }],
            });
        }
        Err(e) => return Err(e),
    };
    let reference = world_a::reference_answers(program, &trace)?;
    let mut violations = world_a::check_oracles(program, &trace, &reference);
    // third C11 oracle (a quarter of the runs: it costs a battery of requests and one more server start)
    if program.final_battery && !violations.iter().any(|v| v.property == "C11") {
        if let Some(fresh) = world_a::fresh_answers(program, &trace)? {
            violations.extend(world_a::check_against_fresh(&trace, &fresh));
        }
    }
    Ok(RunOut { trace, violations })
}

fn policy_by_name(n: &str) -> Policy {
    POLICIES.iter().find(|(k, _)| *k == n).map(|(_, p)| *p).unwrap_or(POLICIES[0].1)
}

pub fn worker(tier: &str, seed: u64, from: u64, to: u64, extra: &[String]) -> Agg {
    crate::sched::install_panic_hook();
    let _ = rayon::ThreadPoolBuilder::new().num_threads(1).build_global();
    entropy::settle_long_lived_threads();
    let t0 = Instant::now();
    let selftest = extra.iter().any(|e| e == "digests");
    let faults = extra.iter().any(|e| e == "faults");
    let thorough = tier == "thorough";
    let mut agg = Agg::default();
    let progress_file = std::env::var("VERIF_WORKER_OUT").unwrap_or_default();
    let stride = runner::stride_of(extra);
    // debugging aid: run only the long sessions of the seed range
    let only_heavy = std::env::var("VERIF_ONLY_HEAVY").is_ok();
    let mut i = from;
    while i < to {
        let this_i = i;
        i += stride;
        let i = this_i;
        if !progress_file.is_empty() {
            runner::note_progress(&progress_file, i);
        }
        let s = runner::run_seed(seed, i);
        if only_heavy && !world_a::is_heavy(s, thorough, faults) {
            continue;
        }
        let g = world_a::generate(s, thorough, faults);
        let sequential = faults && rng::mix2(s, 99) % 6 == 0;
        let mut sched = rng::Rng::stream(s, "schedule");
        // one run in twelve contains real parallelism between a starting worker and the loop
        let racy = !sequential && rng::mix2(s, 0xACE) % 12 == 0;
        let r = if sequential {
            run_case_with(s, &g.program, &mut Mode::Sequential)
        } else if racy {
            run_case_with(s, &g.program, &mut Mode::Racy { rng: &mut sched, policy: g.policy })
        } else {
            run_case_with(s, &g.program, &mut Mode::Random { rng: &mut sched, policy: g.policy })
        };
        agg.runs += 1;
        match r {
            Err(SchedError::Budget(choices)) => {
                // bounded liveness: the system did not become quiescent within 40 steps per message
                let case = Case { program: g.program.clone(), choices, policy: g.policy_name.to_string(), mode: if sequential { "sequential".into() } else { "random".into() } };
                agg.fail(Failure {
                    property: "C12".into(),
                    signature: "no_quiescence".into(),
                    run: i,
                    seed: s,
                    violation: json!({"property": "C12", "kind": "no_quiescence", "signature": "no_quiescence", "detail": "the server did not become quiescent within the step budget (40 scheduler steps per message): messages keep flowing or a thread never finishes"}),
                    case: serde_json::to_value(&case).unwrap(),
                });
            }
            Err(e) => {
                agg.errors.push(format!("run {} seed {}: {:?}", i, s, e));
            }
            Ok(out) => {
                agg.steps += out.trace.steps;
                agg.count("messages_sent", out.trace.sent.len() as u64);
                if g.program.steps.len() >= 300 {
                    agg.count("heavy_sessions(300+ messages, mostly edits of one note of 230-400 blocks)", 1);
                }
                agg.count("responses_received", out.trace.received.len() as u64);
                agg.count("doc_notifications", out.trace.notifications_sent as u64);
                agg.count("loop_panics_caught", out.trace.loop_panics.len() as u64);
                agg.count("worker_panics", out.trace.worker_panics.len() as u64);
                agg.count(&format!("policy:{}", if sequential { "sequential" } else { g.policy_name }), 1);
                if out.trace.racy {
                    agg.count("runs_with_real_parallelism", 1);
                }
                agg.distinct.insert(out.trace.sched_sig);
                let nontrivial = out.trace.probes.iter().any(|(k, v)| *v > 0 && (k.starts_with("notification-while") || k.starts_with("exit-while") || k.starts_with("client-crash") || k.starts_with("new-key"))) || out.trace.sent.iter().any(|x| !x.fault.is_empty() && x.fault != "final-shutdown");
                if nontrivial {
                    agg.distinct_nontrivial.insert(out.trace.sched_sig);
                }
                agg.states.extend(out.trace.states.iter().cloned());
                for (k, v) in &out.trace.probes {
                    agg.probe(k, *v);
                }
                for x in &out.trace.sent {
                    if !x.fault.is_empty() && !x.fault.starts_with("probe-after") && x.fault != "final-shutdown" {
                        agg.fault(&x.fault, 1);
                    }
                }
                for st in &g.program.steps {
                    match st {
                        world_a::Step::Notify { class, .. } if FAULT_CLASSES.contains(&class.as_str()) => agg.fault(class, 1),
                        world_a::Step::StrayResponse { .. } => agg.fault("stray-response", 1),
                        world_a::Step::Exit => agg.fault("exit-in-flight", 1),
                        world_a::Step::Crash => agg.fault("client-crash", 1),
                        _ => {}
                    }
                }
                let case = Case { program: g.program.clone(), choices: out.trace.choices.clone(), policy: g.policy_name.to_string(), mode: if sequential { "sequential".into() } else { "random".into() } };
                for v in &out.violations {
                    agg.fail(Failure { property: v.property.clone(), signature: v.signature.clone(), run: i, seed: s, violation: serde_json::to_value(v).unwrap(), case: serde_json::to_value(&case).unwrap() });
                }
                if agg.samples.len() < 3 && nontrivial && g.program.steps.len() <= 6 {
                    agg.samples.push(json!({"seed": s, "run": i, "policy": g.policy_name, "program_steps": g.program.steps, "choices": out.trace.choices, "events": out.trace.events}));
                }
                if selftest {
                    // racy runs are real executions between two hook points: excluded from digest equality by design
                    agg.digests.push((i, if out.trace.racy { 0 } else { rng::mix2(out.trace.digest, out.trace.sched_sig) }));
                }
                if !out.trace.blocked.is_empty() || out.violations.iter().any(|v| v.kind == "exit_hang" || v.kind == "deadlock") {
                    // a server thread that never parks again keeps running (and burning a core) for the rest of
                    // this process: the violation is recorded, this worker stops exploring
                    agg.count("workers_stopped_after_a_hang", 1);
                    break;
                }
                if let Ok(d) = std::env::var("VERIF_DUMP_TRACE") {
                    if d.parse::<u64>().ok() == Some(i) {
                        eprintln!("TRACE run {} choices {:?} digest {} sig {}", i, out.trace.choices, out.trace.digest, out.trace.sched_sig);
                        for x in &out.trace.sent {
                            eprintln!("  tx seq={} p={} {}", x.seq, x.p, serde_json::to_string(&x.msg).unwrap_or_default());
                        }
                        for e in &out.trace.events {
                            eprintln!("  ev {:?}", e);
                        }
                        for r in &out.trace.received {
                            eprintln!("  rx seq={} p={} {}", r.seq, r.p, serde_json::to_string(&r.msg).unwrap_or_default());
                        }
                    }
                }
            }
        }
    }
    for p in [
        "notification-while-worker-spawned-not-started",
        "notification-while-worker-computed-not-sent",
        "notification-while-worker-responded-not-exited",
        "notification-with-3+-workers-alive",
        "3+-workers-alive",
        "exit-while-workers-alive",
        "new-key-notification-overlapped",
    ] {
        agg.probe(p, 0);
    }
    agg.wall_s = t0.elapsed().as_secs_f64();
    agg
}

const FAULT_CLASSES: &[&str] = &["cancel-request", "wrong-shape-notification"];

fn sig_of(vs: &[Violation], property: &str, signature: &str) -> bool {
    vs.iter().any(|v| v.property == property && v.signature == signature)
}

/// shrink the program (drop steps with their dependants, drop notes), then normalise the schedule
pub fn minimise(seed: u64, case: &Case, property: &str, signature: &str, budget: usize) -> (Case, usize) {
    let mut best = case.clone();
    let mut used = 0usize;
    let started = Instant::now();
    // try a candidate program under: the recorded policy with a few schedule seeds, and sequentially
    let mut attempt = |prog: &Program, used: &mut usize| -> Option<Case> {
        let policy = policy_by_name(&case.policy);
        for k in 0..4u64 {
            if *used >= budget || started.elapsed().as_secs() > 60 {
                return None;
            }
            *used += 1;
            let r = if k == 3 {
                run_case_with(seed, prog, &mut Mode::Sequential)
            } else {
                let mut sched = rng::Rng::stream(rng::mix2(seed, k), "schedule");
                run_case_with(seed, prog, &mut Mode::Random { rng: &mut sched, policy })
            };
            if let Ok(out) = r {
                if sig_of(&out.violations, property, signature) {
                    return Some(Case { program: prog.clone(), choices: out.trace.choices.clone(), policy: case.policy.clone(), mode: if k == 3 { "sequential".into() } else { "random".into() } });
                }
            }
        }
        None
    };
    let mut changed = true;
    while changed && used < budget {
        changed = false;
        let mut i = 0;
        while i < best.program.steps.len() && used < budget {
            let gone = world_a::dependents(&best.program.steps, i);
            let cand = world_a::without(&best.program, &gone);
            if let Some(c) = attempt(&cand, &mut used) {
                best = c;
                changed = true;
            } else {
                i += 1;
            }
        }
    }
    let keys: Vec<String> = best.program.library.keys().cloned().collect();
    for k in keys {
        if used >= budget {
            break;
        }
        let mut cand = best.program.clone();
        cand.library.remove(&k);
        if let Some(c) = attempt(&cand, &mut used) {
            best = c;
        }
    }
    // shrink texts of notifications and library by paragraphs
    for sep in ["\n\n"] {
        let lib_keys: Vec<String> = best.program.library.keys().cloned().collect();
        for k in lib_keys {
            let mut parts: Vec<String> = best.program.library[&k].split(sep).map(|s| s.to_string()).collect();
            let mut i = 0;
            while i < parts.len() && parts.len() > 1 && used < budget {
                let mut p2 = parts.clone();
                p2.remove(i);
                let mut cand = best.program.clone();
                cand.library.insert(k.clone(), p2.join(sep));
                if let Some(c) = attempt(&cand, &mut used) {
                    best = c;
                    parts = p2;
                } else {
                    i += 1;
                }
            }
        }
    }
    // schedule normalisation: prefer run-to-completion if the violation survives it
    if best.mode != "sequential" && used < budget {
        used += 1;
        if let Ok(out) = run_case_with(seed, &best.program, &mut Mode::Sequential) {
            if sig_of(&out.violations, property, signature) {
                best.choices = out.trace.choices.clone();
                best.mode = "sequential".into();
            }
        }
    }
    if best.mode != "sequential" {
        // fewest context switches among a few mostly-sequential schedules
        let switches = |c: &[Choice]| c.windows(2).filter(|w| w[0] != w[1]).count();
        let mut best_sw = switches(&best.choices);
        for k in 10..20u64 {
            if used >= budget {
                break;
            }
            used += 1;
            let mut sched = rng::Rng::stream(rng::mix2(seed, k), "schedule");
            if let Ok(out) = run_case_with(seed, &best.program, &mut Mode::Random { rng: &mut sched, policy: policy_by_name("mostly-sequential") }) {
                if sig_of(&out.violations, property, signature) && switches(&out.trace.choices) < best_sw {
                    best_sw = switches(&out.trace.choices);
                    best.choices = out.trace.choices.clone();
                }
            }
        }
    }
    (best, used)
}

fn replay_case(seed: u64, case: &Case) -> Result<RunOut, SchedError> {
    run_case_with(seed, &case.program, &mut Mode::Replay { choices: &case.choices, at: 0 })
}

pub fn check(property: &str, tier: &str, started: Instant) -> i32 {
    crate::sched::install_panic_hook();
    let _ = rayon::ThreadPoolBuilder::new().num_threads(1).build_global();
    entropy::settle_long_lived_threads();
    let seed = runner::env_seed();
    let runs = runs_for(property, tier);
    let extra: Vec<String> = if property == "C12" { vec!["faults".into()] } else { vec![] };
    let agg = match runner::fan_out("A", tier, seed, runs, runner::jobs(), &extra) {
        Ok(a) => a,
        Err(e) => {
            eprintln!("HARNESS-ERROR: {}", e);
            return 2;
        }
    };
    if !agg.errors.is_empty() {
        // a scheduler problem (budget, stuck) in more than a handful of runs is a harness error, never a pass
        eprintln!("HARNESS-ERROR: {} runs ended with a scheduler error, first: {}", agg.errors.len(), agg.errors[0]);
        return 2;
    }
    let findings = runner::load_findings();
    let mut violations = 0u64;
    let mut known_seen = vec![];
    if !agg.aborted_runs.is_empty() {
        if property != "C12" {
            eprintln!("HARNESS-ERROR: the server process died during run indexes {:?} (a C12 matter: run ./check C12); this check cannot judge C11 on them", agg.aborted_runs);
            return 2;
        }
        for i in agg.aborted_runs.iter().take(3) {
            let s = runner::run_seed(seed, *i);
            violations += 1;
            let path = runner::replay_path(&format!("C12-{}-abort.json", s));
            let g = world_a::generate(s, tier == "thorough", true);
            let rv = json!({"world": "A", "property": "C12", "signature": "process_abort", "seed": s, "run": i, "minimised": false,
                "violation": {"kind": "process_abort", "detail": "the process running the server died (stack overflow / abort) while this session was executed: no request after that point can be answered"},
                "case": {"regenerate": {"base_seed": seed, "run": i, "tier": tier, "faults": true}, "program": g.program},
                "how_to_replay": "cd /verif && ./check replay <this file>  (re-executes the run in a child process and reports whether it dies again)"});
            if let Err(e) = runner::write_json(&path, &rv) {
                eprintln!("HARNESS-ERROR: {}", e);
                return 2;
            }
            println!("VIOLATION property=C12 replay={}", path.display());
            println!("  signature=process_abort run_index={} seed={}", i, s);
        }
    }
    let min_deadline = started.elapsed().as_secs() + 180;
    let mut minimise_left = 5;
    for (k, f) in &agg.failures {
        if f.property != property {
            continue;
        }
        if let Some(kf) = runner::known(&findings, property, &f.signature) {
            println!("KNOWN-FINDING: property={} {} [signature {} seen in {} runs]", property, kf.what, f.signature, agg.failure_counts.get(k).copied().unwrap_or(0));
            known_seen.push(f.signature.clone());
            continue;
        }
        let case: Case = serde_json::from_value(f.case.clone()).expect("case");
        if f.signature.starts_with("deadlock") || f.signature.starts_with("exit_hang") {
            // a watchdog verdict rests on real time: it counts only if it shows again when replayed
            let again = matches!(replay_case(f.seed, &case), Ok(out) if sig_of(&out.violations, property, &f.signature));
            if !again {
                println!("NOTE: watchdog verdict {} of run {} did not show again on replay; not reported", f.signature, f.run);
                continue;
            }
        }
        if f.signature == "no_quiescence" {
            // the step allowance is the harness's: the verdict counts only if four times the allowance is not enough either
            entropy::set(rng::mix2(f.seed, rng::fnv("entropy")));
            let again = matches!(world_a::execute(&case.program, &mut Mode::Replay { choices: &case.choices, at: 0 }, 160), Err(SchedError::Budget(_)));
            if !again {
                println!("NOTE: run {} needed more than the usual step allowance but did become quiescent; not reported", f.run);
                continue;
            }
        }
        violations += 1;
        let (mcase, evals, minimised) = if minimise_left > 0 && started.elapsed().as_secs() < min_deadline {
            minimise_left -= 1;
            // every evaluation of a hanging case costs a watchdog period and leaves a spinning thread behind
            let hang = f.signature.starts_with("deadlock") || f.signature.starts_with("exit_hang") || f.signature.starts_with("no_quiescence");
            let (m, used) = minimise(f.seed, &case, property, &f.signature, if hang { 10 } else { 300 });
            // the minimised file must fail the same way when replayed from its explicit choice list
            match replay_case(f.seed, &m) {
                Ok(out) if sig_of(&out.violations, property, &f.signature) => (m, used, true),
                _ => (case.clone(), used, false),
            }
        } else {
            (case.clone(), 0, false)
        };
        let violation = match replay_case(f.seed, &mcase) {
            Ok(out) => out.violations.iter().find(|v| v.property == property && v.signature == f.signature).map(|v| serde_json::to_value(v).unwrap()).unwrap_or(f.violation.clone()),
            Err(_) => f.violation.clone(),
        };
        let path = runner::replay_path(&format!("{}-{}-{}.json", property, f.seed, rng::fnv(&f.signature) % 100000));
        let rv = json!({
            "world": "A", "property": property, "signature": f.signature, "seed": f.seed, "run": f.run,
            "minimised": minimised, "minimiser_evaluations": evals, "violation": violation, "case": mcase,
            "how_to_replay": "cd /verif && ./check replay <this file>",
        });
        if let Err(e) = runner::write_json(&path, &rv) {
            eprintln!("HARNESS-ERROR: {}", e);
            return 2;
        }
        println!("VIOLATION property={} replay={}", property, path.display());
        println!("  signature={} runs_with_it={} first_seed={}", f.signature, agg.failure_counts.get(k).copied().unwrap_or(0), f.seed);
        println!("  what: {}", violation.get("detail").and_then(|d| d.as_str()).unwrap_or("").chars().take(500).collect::<String>());
    }
    // cross-check of the transport stub with the real binary over real stdio (C12 only)
    let mut stdio_sessions = 0u64;
    let mut stdio_requests = 0u64;
    if property == "C12" {
        let iwes = std::env::var("VERIF_IWES_BIN").map(std::path::PathBuf::from).unwrap_or_else(|_| runner::verif_path("target/iwe/release/iwes"));
        if !iwes.exists() {
            eprintln!("HARNESS-ERROR: {} missing (run ./check setup)", iwes.display());
            return 2;
        }
        let sessions = if tier == "thorough" { 12 } else { 3 };
        let scratch = runner::verif_path("target/scratch");
        for k in 0..sessions {
            match crate::stdio_check::run_session(&iwes, &scratch, (rng::mix2(seed, 7000 + k) / 3) * 3 + k % 3) {
                Err(e) => {
                    eprintln!("HARNESS-ERROR: stdio session: {}", e);
                    return 2;
                }
                Ok(o) => {
                    stdio_sessions += 1;
                    stdio_requests += o.requests as u64;
                    for (sig, detail) in o.violations {
                        if runner::known(&findings, "C12", &sig).is_some() {
                            continue;
                        }
                        violations += 1;
                        let path = runner::replay_path(&format!("C12-stdio-{}-{}.json", seed, k));
                        let rv = json!({"world": "A-stdio", "property": "C12", "signature": sig, "seed": seed, "session": k, "minimised": false,
                            "violation": {"kind": sig, "detail": detail}, "case": {"stdio_session_seed": (rng::mix2(seed, 7000 + k) / 3) * 3 + k % 3},
                            "how_to_replay": "cd /verif && ./check replay <this file>  (runs the same scripted session against the freshly built iwes binary; real stdio, timing not controlled)"});
                        if let Err(e) = runner::write_json(&path, &rv) {
                            eprintln!("HARNESS-ERROR: {}", e);
                            return 2;
                        }
                        println!("VIOLATION property=C12 replay={}", path.display());
                        println!("  signature={} what: {}", rv["signature"], rv["violation"]["detail"]);
                    }
                }
            }
        }
    }
    let rule = if property == "C11" {
        "A case is one generated client program (library + 4-14 messages: didChange/didSave with unique version tokens, every request kind, dependent codeAction/resolve and apply-edit steps) executed through the real router under one seeded schedule (which of client / loop / worker k moves next at every step). Distinct = hash of the full choice list. Non-trivial = the loop handled an edit notification while at least one request worker was alive (spawned-not-started / computed-not-sent / responded-not-exited), or exit/new-key overlap probes fired."
    } else {
        "A case is one generated client program with injected request-level faults (28 kinds: unknown/outside URIs, positions out of range, dangling/self/above-heading inline, stale or malformed code-action resolve, unknown method, wrong shape, executeCommand variants, duplicate id, cancel, stray response, shutdown-then-more, exit with requests in flight, client crash), executed through the real router under a seeded or run-to-completion schedule. Distinct = hash of the full choice list. Non-trivial = at least one fault kind actually fired in the run or an overlap probe fired."
    };
    let extra = json!({
        "failure_signatures": agg.failure_counts,
        "explanation": if property == "C11" {
            "linearizability of a single-client register-like API against the same router run to completion: every answer must equal the reference answer at some notification prefix inside [sent, answered]; a notification whose handling panics is a lost edit; final formatting of every note equals the reference"
        } else {
            "exactly-once responses per request id at quiescence, no unknown ids, liveness probe after every faulty request answered as the sequential reference answers it, exit returns Ok, crash terminates the loop"
        },
        "real_binary_stdio_cross_check": {"sessions": stdio_sessions, "requests": stdio_requests, "what": "the release iwes binary built from /repo with the workspace profile, driven over real pipes: bursts of 60-160 requests written back to back, requests that must be answered with an error, edit visibility, shutdown/exit status"},
        "distinct_measure": "distinct_cases = distinct choice lists; states = distinct abstract states (loop phase, multiset of worker phases, inbox length capped at 3, notifications sent mod 4)",
    });
    let ev = EvidenceIn {
        property,
        tier,
        seed,
        level: "exploration",
        agg: &agg,
        rule,
        real: &["iwes::main_loop -> Router::run -> all handlers", "liwe", "lsp-server message types", "crossbeam channels of Connection::memory()", "std::thread (real OS threads, parked at hook points)", "rayon (global pool pinned to 1 thread)"],
        stubs: &["editor (generated reactive client program)", "choice of which thread runs (seeded scheduler over hook points)", "entropy (LD_PRELOAD shim)", "LLM endpoint absent (models without API key => empty completion)", "stdio transport replaced by the in-memory connection the test-suite uses"],
        assumptions: &[
            "code between two hook points runs without pre-emption: interleavings finer than the 3 worker phases + loop step are not explored (the shared state is only touched through Arc<Server>, whose hand-over points are the hooks)",
            "blocking that no hook sees is detected by a real-time watchdog (5 s) and reported as deadlock only if reproducible",
            "sampling, not proof",
        ],
        violations,
        known_findings: known_seen,
        extra,
        started,
    };
    if let Err(e) = runner::write_evidence(ev) {
        eprintln!("HARNESS-ERROR: {}", e);
        return 2;
    }
    println!("{} {}: runs={} steps={} distinct_schedules={} nontrivial={} states={} violations={} wall={:.1}s", property, tier, agg.runs, agg.steps, agg.distinct.len(), agg.distinct_nontrivial.len(), agg.states.len(), violations, started.elapsed().as_secs_f64());
    if violations > 0 {
        1
    } else {
        0
    }
}

pub fn replay(v: &Value, path: &str) -> i32 {
    crate::sched::install_panic_hook();
    let _ = rayon::ThreadPoolBuilder::new().num_threads(1).build_global();
    entropy::settle_long_lived_threads();
    let property = v["property"].as_str().unwrap_or("");
    let signature = v["signature"].as_str().unwrap_or("");
    let seed = v["seed"].as_u64().unwrap_or(0);
    if let Some(s) = v["case"].get("stdio_session_seed").and_then(|s| s.as_u64()) {
        let iwes = std::env::var("VERIF_IWES_BIN").map(std::path::PathBuf::from).unwrap_or_else(|_| runner::verif_path("target/iwe/release/iwes"));
        return match crate::stdio_check::run_session(&iwes, &runner::verif_path("target/scratch"), s) {
            Err(e) => {
                eprintln!("HARNESS-ERROR: {}", e);
                2
            }
            Ok(o) => {
                if let Some((sig, detail)) = o.violations.iter().find(|(sig, _)| sig == signature) {
                    println!("VIOLATION property=C12 replay={}", path);
                    println!("  reproduced: {} - {}", sig, detail);
                    1
                } else {
                    println!("not reproduced: {} requests answered exactly once, violations {:?}", o.requests, o.violations);
                    0
                }
            }
        };
    }
    if let Some(r) = v["case"].get("regenerate") {
        // a run that killed its process is replayed in a child process
        let exe = std::env::current_exe().expect("exe");
        let out = runner::verif_path(&format!("target/scratch/replay-abort-{}.json", std::process::id()));
        let i = r["run"].as_u64().unwrap_or(0);
        let mut cmd = std::process::Command::new(exe);
        cmd.arg("worker").arg("A").arg(r["tier"].as_str().unwrap_or("quick")).arg(r["base_seed"].as_u64().unwrap_or(1).to_string()).arg(i.to_string()).arg((i + 1).to_string()).arg(&out);
        if r["faults"].as_bool().unwrap_or(false) {
            cmd.arg("faults");
        }
        let st = cmd.stdout(std::process::Stdio::null()).stderr(std::process::Stdio::null()).status();
        let _ = std::fs::remove_file(&out);
        let _ = std::fs::remove_file(out.with_extension("progress"));
        return match st {
            Ok(s) if !s.success() => {
                println!("VIOLATION property=C12 replay={}", path);
                println!("  reproduced: the process executing the session died again ({:?})", s.code());
                1
            }
            Ok(_) => {
                println!("not reproduced: the session ran to its end");
                0
            }
            Err(e) => {
                eprintln!("HARNESS-ERROR: {}", e);
                2
            }
        };
    }
    let case: Case = match serde_json::from_value(v["case"].clone()) {
        Ok(c) => c,
        Err(e) => {
            eprintln!("HARNESS-ERROR: replay case does not parse: {}", e);
            return 2;
        }
    };
    match replay_case(seed, &case) {
        Err(SchedError::ReplayDivergence(d)) => {
            eprintln!("HARNESS-ERROR: replay diverged: {}", d);
            2
        }
        Err(e) => {
            eprintln!("HARNESS-ERROR: {:?}", e);
            2
        }
        Ok(out) => match out.violations.iter().find(|x| x.property == property && x.signature == signature) {
            Some(x) => {
                println!("VIOLATION property={} replay={}", property, path);
                println!("  reproduced: {} — {}", x.kind, x.detail);
                for (t, p) in &out.trace.events {
                    println!("    event thread={} {}", t, p);
                }
                1
            }
            None => {
                println!("not reproduced: property={} signature={} (violations in this run: {:?})", property, signature, out.violations.iter().map(|v| v.signature.clone()).collect::<Vec<_>>());
                0
            }
        },
    }
}

pub fn selftest() -> i32 {
    let seed = runner::env_seed();
    let n = std::env::var("VERIF_RUNS").ok().and_then(|s| s.parse().ok()).unwrap_or(2000u64);
    let mut bad = 0;
    for faults in [false, true] {
        let mut extra = vec!["digests".to_string()];
        if faults {
            extra.push("faults".into());
        }
        let a = runner::fan_out("A", "quick", seed, n, 4, &extra);
        let b = runner::fan_out("A", "quick", seed, n, 16, &extra);
        match (a, b) {
            (Ok(mut a), Ok(mut b)) => {
                a.digests.sort();
                b.digests.sort();
                let mism = a.digests.iter().zip(b.digests.iter()).filter(|(x, y)| x != y).count();
                println!("selftest A (faults={}): seeds={} digest mismatches={} scheduler errors={} (4 vs 16 worker processes)", faults, n, mism, a.errors.len() + b.errors.len());
                for (x, y) in a.digests.iter().zip(b.digests.iter()).filter(|(x, y)| x != y).take(8) {
                    println!("  mismatch at run index {} ({} vs {})", x.0, x.1, y.1);
                }
                if mism != 0 || a.digests.len() != b.digests.len() {
                    bad += 1;
                }
            }
            (a, b) => {
                eprintln!("HARNESS-ERROR: selftest: {:?} {:?}", a.err(), b.err());
                bad += 1;
            }
        }
    }
    if bad == 0 {
        0
    } else {
        2
    }
}
