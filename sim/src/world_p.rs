//! World P — same library, different schedules, orders and seeds (C16). DESIGN.md 4.5, 5.4.
//!
//! Real: liwe import/export/paths/search in-process, and the `iwe` binary. Controlled by the seed: rayon pool
//! size, insertion order into State and into Database::insert_document, directory enumeration order and hash
//! seeds (shim). Not controlled: rayon's work-stealing order (no seam) — pool size 1 is exact, larger pools
//! are real executions.

use std::collections::{BTreeMap, HashMap};

use serde::{Deserialize, Serialize};

use crate::canon::guarded;
use crate::gen::{self, Block, Doc, Gen, GenCfg, Inline};
use crate::rng::Rng;

use liwe::database::Database;
use liwe::graph::GraphContext;
use liwe::model::config::MarkdownOptions;
use liwe::model::node::NodePointer;
use liwe::model::Key;

#[derive(Clone, Debug, Serialize, Deserialize, PartialEq)]
pub struct Library {
    pub refs_ext: String,
    pub notes: BTreeMap<String, String>,
    pub queries: Vec<String>,
}

#[derive(Clone, Debug, Serialize, Deserialize, PartialEq)]
pub struct Variant {
    /// "import" | "inserts"
    pub kind: String,
    pub pool: usize,
    /// 0 = sorted order
    pub perm_seed: u64,
    pub entropy: u64,
    pub label: String,
}

pub fn reference_variant() -> Variant {
    Variant { kind: "import".into(), pool: 1, perm_seed: 0, entropy: 0xC16, label: "reference".into() }
}

/// a library beyond the size thresholds of parallel code paths: 700-1200 small notes, more than 2000 search paths,
/// few distinct heading texts of equal length (masses of ties in score, length and rank), ranks of a few values
pub fn scale_library(seed: u64) -> Library {
    let mut work = Rng::stream(seed, "scale-workload");
    let n = work.range(700, 1200);
    let words = ["alpha", "bravo", "delta"];
    let mut notes = BTreeMap::new();
    for i in 0..n {
        let k = if i % 5 == 0 { format!("d{}/n{:04}", i % 3, i) } else { format!("n{:04}", i) };
        let w1 = words[work.below(3)];
        let w2 = words[work.below(3)];
        let mut t = format!("# note {:04}\n\n## {}\n\ntext {}\n\n## {}\n\n", if work.chance(1, 10) { 0 } else { i }, w1, i, w2);
        if work.chance(1, 4) {
            let j = work.below(40);
            let target = if j % 5 == 0 { format!("d{}/n{:04}", j % 3, j) } else { format!("n{:04}", j) };
            let rel = if i % 5 == 0 { format!("../{}", target) } else { target };
            t.push_str(&format!("[x]({})\n", rel));
        } else {
            t.push_str("more\n");
        }
        notes.insert(k, t);
    }
    Library { refs_ext: String::new(), notes, queries: vec![String::new(), "alpha".into(), "note".into(), "note bravo".into()] }
}

pub fn is_scale(seed: u64, thorough: bool) -> bool {
    Rng::stream(seed, "scale-library").chance(1, if thorough { 100 } else { 200 })
}

pub fn generate(seed: u64, thorough: bool) -> Library {
    if is_scale(seed, thorough) {
        return scale_library(seed);
    }
    let mut swarm = Rng::stream(seed, "swarm");
    let mut work = Rng::stream(seed, "workload");
    let n = if thorough {
        *swarm.pick(&[3usize, 8, 20, 40, 80, 150, 300, 600])
    } else {
        *swarm.pick(&[1usize, 2, 3, 4, 6, 10, 20, 40])
    };
    let with_dirs = swarm.chance(1, 3);
    let refs_ext = if swarm.chance(1, 4) { ".md" } else { "" }.to_string();
    let rich = n <= 40 && swarm.chance(1, 3);
    let keys = if rich { gen::rich_key_pool(n, true, 1, &mut work) } else { gen::key_pool(n, with_dirs) };
    let mut targets = keys.clone();
    targets.push("zz".into());
    if rich {
        // bare names that are not keys themselves but are the file name of notes in two directories
        targets.push("readme".into());
        targets.push("idea".into());
        // a name that matches two keys of the pool only when letter case is ignored
        targets.push("TODO".into());
        targets.push("TODO".into());
    }
    let cfg = GenCfg { keys: keys.clone(), targets, max_blocks: swarm.range(1, 6), max_depth: 2 };
    let mut docs: BTreeMap<String, Doc> = BTreeMap::new();
    for k in &keys {
        let d = Gen { rng: &mut work, cfg: &cfg }.doc();
        docs.insert(k.clone(), d);
    }
    // deliberately symmetric structures: only tie-breaking can distinguish the results
    let pairs = if n >= 3 { swarm.range(0, (n / 3).min(6)) } else { 0 };
    for _ in 0..pairs {
        let a = work.pick(&keys).clone();
        let b = work.pick(&keys).clone();
        let c = work.pick(&keys).clone();
        if a == b || a == c || b == c {
            continue;
        }
        let title = format!("{} {}", work.pick(gen::WORDS), work.pick(gen::WORDS));
        let same_title = work.chance(1, 2);
        for (i, k) in [&a, &b].iter().enumerate() {
            let t = if same_title { title.clone() } else { format!("{} {}", title, if i == 0 { "aa" } else { "bb" }) };
            let d = Doc {
                front: None,
                blocks: vec![
                    Block::Heading { level: 1, inl: vec![Inline::Word(t)], setext: false },
                    Block::BlockRef { text: "x".into(), key: c.clone(), ext: false },
                    Block::Para(vec![vec![Inline::Word("see".into()), Inline::Link { text: "y".into(), key: c.clone(), ext: false }]]),
                ],
                trailing_newline: true,
                bom: false,
            };
            docs.insert((*k).clone(), d);
        }
        if work.chance(1, 3) {
            // reference cycle
            let d = docs.get_mut(&c).unwrap();
            d.blocks.push(Block::BlockRef { text: "back".into(), key: a.clone(), ext: false });
        }
    }
    // duplicate titles
    if n >= 2 && swarm.chance(1, 2) {
        let t = format!("dup {}", work.pick(gen::WORDS));
        for _ in 0..swarm.range(2, 4) {
            let k = work.pick(&keys).clone();
            let d = docs.get_mut(&k).unwrap();
            d.blocks.insert(0, Block::Heading { level: 1, inl: vec![Inline::Word(t.clone())], setext: false });
        }
    }
    // a popular note: block-referenced from six to nine others (more referrers than a truncated listing shows).
    // Own stream: every other draw of the library stays what it was.
    let mut pop = Rng::stream(seed, "popular-note");
    if n >= 8 && pop.chance(1, 3) {
        let target = pop.pick(&keys).clone();
        let mut others: Vec<String> = keys.iter().filter(|k| **k != target).cloned().collect();
        pop.shuffle(&mut others);
        let m = pop.range(6, 9).min(others.len());
        for k in others.into_iter().take(m) {
            docs.get_mut(&k).unwrap().blocks.push(Block::BlockRef { text: "pop".into(), key: target.clone(), ext: false });
        }
    }
    let notes = docs.iter().map(|(k, d)| (k.clone(), gen::render(k, d))).collect();
    let mut queries = vec![String::new()];
    for _ in 0..3 {
        queries.push(work.pick(gen::WORDS).to_string());
    }
    Library { refs_ext, notes, queries }
}

fn permuted(keys: &[String], perm_seed: u64) -> Vec<String> {
    let mut v = keys.to_vec();
    if perm_seed != 0 {
        Rng::new(perm_seed).shuffle(&mut v);
    }
    v
}

pub fn build(lib: &Library, v: &Variant) -> Database {
    let opts = MarkdownOptions { refs_extension: lib.refs_ext.clone() };
    let keys: Vec<String> = lib.notes.keys().cloned().collect();
    let order = permuted(&keys, v.perm_seed);
    if v.kind == "inserts" {
        let mut db = Database::new(HashMap::new(), true, opts);
        for k in order {
            db.insert_document(Key::from_file_name(&k), lib.notes[&k].clone());
        }
        db
    } else {
        let mut state: HashMap<String, String> = HashMap::new();
        for k in order {
            state.insert(k.clone(), lib.notes[&k].clone());
        }
        Database::new(state, true, opts)
    }
}

/// canonical dump of exactly what C16 names; ordered lists stay ordered, sets are sorted
pub fn dump(lib: &Library, db: &Database) -> Vec<(String, String)> {
    let g = db.graph();
    let mut out: Vec<(String, String)> = vec![];
    let exported = g.export();
    let mut keys: Vec<Key> = g.keys();
    keys.sort();
    for k in &keys {
        let ks = k.to_string();
        out.push((format!("format:{}", ks), exported.get(&ks).cloned().unwrap_or_else(|| "<missing>".into())));
        out.push((format!("title:{}", ks), format!("{:?}", g.get_key_title(k))));
        let mut b: Vec<String> = g.get_block_references_to(k).iter().map(|id| format!("{}@{:?}", g.node(*id).node_key(), g.node_line_range(*id).map(|r| r.start))).collect();
        b.sort();
        out.push((format!("blockrefs:{}", ks), b.join(",")));
        let mut i: Vec<String> = g.get_inline_references_to(k).iter().map(|id| format!("{}@{:?}", g.node(*id).node_key(), g.node_line_range(*id).map(|r| r.start))).collect();
        i.sort();
        out.push((format!("inlinerefs:{}", ks), i.join(",")));
    }
    let paths: Vec<String> = g.paths().iter().map(|p| format!("{}:{}", g.node(p.target()).node_key(), p.ids().iter().map(|id| g.get_text(*id).trim().to_string()).collect::<Vec<_>>().join(" • "))).collect();
    out.push(("paths".into(), paths.join("\n")));
    let sp: Vec<String> = g.search_paths().iter().map(|p| format!("{}|{}|{}|{}|{}", p.search_text, p.key, p.line, p.root, p.node_rank)).collect();
    out.push(("search_paths".into(), sp.join("\n")));
    for q in &lib.queries {
        let r: Vec<String> = db.global_search(q).iter().map(|p| format!("{}|{}|{}|{}|{}", p.search_text, p.key, p.line, p.root, p.node_rank)).collect();
        out.push((format!("search:{}", q), r.join("\n")));
    }
    out
}

/// the same library seen through the LSP server's handlers (set-valued answers compared as sets)
pub fn lsp_dump(lib: &Library, v: &Variant) -> Vec<(String, String)> {
    let keys: Vec<String> = lib.notes.keys().cloned().collect();
    // names an editor would percent-encode address another key on the server side than the library key
    // (C14's subject): such libraries are compared at the liwe level only
    if keys.iter().any(|k| crate::canon::uri(k).as_str().contains('%')) {
        return vec![];
    }
    let order = permuted(&keys, v.perm_seed);
    let server = if v.kind == "inserts" {
        let mut s = crate::canon::new_server(&BTreeMap::new(), &lib.refs_ext);
        for k in &order {
            crate::canon::did_change(&mut s, k, &lib.notes[k]);
        }
        s
    } else {
        // BTreeMap -> HashMap inside new_server: insertion order there is the sorted one; the hash seed varies
        crate::canon::new_server(&lib.notes, &lib.refs_ext)
    };
    let mut out = vec![];
    for k in &keys {
        out.push((format!("lsp-references:{}", k), crate::canon::references(&server, k).unwrap_or_else(|e| e)));
        out.push((format!("lsp-hints:{}", k), crate::canon::hints(&server, k).unwrap_or_else(|e| e)));
        out.push((format!("lsp-dsym:{}", k), crate::canon::document_symbols(&server, k).unwrap_or_else(|e| e)));
        out.push((format!("lsp-format:{}", k), crate::canon::formatting(&server, k).unwrap_or_else(|e| e)));
    }
    for q in &lib.queries {
        out.push((format!("lsp-wsym:{}", q), crate::canon::workspace_symbols(&server, q).unwrap_or_else(|e| e)));
    }
    out
}

/// run one variant on fresh threads (fresh pool => hash keys from the variant's entropy)
pub fn run_variant(lib: &Library, v: &Variant) -> Result<Vec<(String, String)>, String> {
    crate::entropy::set(v.entropy);
    let pool = rayon::ThreadPoolBuilder::new().num_threads(v.pool).build().map_err(|e| e.to_string())?;
    let r = pool.install(|| {
        // reach probe: which iteration order does a HashSet created under this variant's hash seed have?
        let probe: std::collections::HashSet<u32> = (0..24).collect();
        let order = probe.iter().fold(0u64, |h, x| h.wrapping_mul(31).wrapping_add(*x as u64));
        HASH_ORDERS.with(|c| c.set(order));
        guarded(|| {
            let mut d = dump(lib, &build(lib, v));
            if lib.notes.len() <= 60 {
                d.extend(lsp_dump(lib, v));
            }
            d
        })
    });
    let order = pool.install(|| HASH_ORDERS.with(|c| c.get()));
    LAST_HASH_ORDER.with(|c| c.set(order));
    drop(pool);
    r
}

thread_local! {
    static HASH_ORDERS: std::cell::Cell<u64> = const { std::cell::Cell::new(0) };
    /// iteration-order fingerprint of the last variant executed from this thread
    pub static LAST_HASH_ORDER: std::cell::Cell<u64> = const { std::cell::Cell::new(0) };
}

pub fn observable_class(label: &str) -> &str {
    label.split(':').next().unwrap_or(label)
}

pub fn first_diff(a: &[(String, String)], b: &[(String, String)]) -> Option<(String, String, String)> {
    for i in 0..a.len().max(b.len()) {
        match (a.get(i), b.get(i)) {
            (Some(x), Some(y)) if x == y => {}
            (Some(x), Some(y)) => return Some((x.0.clone(), x.1.clone(), if x.0 == y.0 { y.1.clone() } else { format!("<{}> {}", y.0, y.1) })),
            (Some(x), None) => return Some((x.0.clone(), x.1.clone(), "<absent>".into())),
            (None, Some(y)) => return Some((y.0.clone(), "<absent>".into(), y.1.clone())),
            (None, None) => {}
        }
    }
    None
}

pub fn variants(seed: u64, n_notes: usize, thorough: bool) -> Vec<Variant> {
    let mut r = Rng::stream(seed, "variants");
    let mut v = vec![];
    // one factor at a time …
    for p in [2usize, 3, 4, 8, 16] {
        if thorough || r.chance(1, 2) {
            v.push(Variant { kind: "import".into(), pool: p, perm_seed: 0, entropy: 0xC16, label: "pool-size".into() });
        }
    }
    for _ in 0..2 {
        v.push(Variant { kind: "import".into(), pool: 1, perm_seed: r.next() | 1, entropy: 0xC16, label: "state-insert-order".into() });
        v.push(Variant { kind: "import".into(), pool: 1, perm_seed: 0, entropy: r.next() | 1, label: "hash-seed".into() });
    }
    if n_notes <= 150 {
        v.push(Variant { kind: "inserts".into(), pool: 1, perm_seed: 0, entropy: 0xC16, label: "insert-document-sorted".into() });
        for _ in 0..2 {
            v.push(Variant { kind: "inserts".into(), pool: 1, perm_seed: r.next() | 1, entropy: 0xC16, label: "insert-document-order".into() });
        }
    }
    // … and combined
    for _ in 0..2 {
        let kind = if n_notes <= 150 && r.chance(1, 2) { "inserts" } else { "import" };
        v.push(Variant { kind: kind.into(), pool: *r.pick(&[2usize, 4, 8, 16]), perm_seed: r.next() | 1, entropy: r.next() | 1, label: "combined".into() });
    }
    v
}

pub fn is_controlled(v: &Variant) -> bool {
    v.pool == 1
}
