//! Canonical observations of a live `Server` (DESIGN.md 5.1): everything C04 lists, rendered so that
//! only what the property talks about can differ (node ids are never part of an observation, set-valued
//! answers are compared as sets).

use std::collections::{BTreeMap, HashMap};
use std::panic::{catch_unwind, AssertUnwindSafe};

use iwes::router::server::Server;
use iwes::router::{LspClient, ServerConfig};
use liwe::graph::GraphContext;
use liwe::model::config::{Configuration, MarkdownOptions};
use liwe::model::node::{NodeIter, NodePointer};
use liwe::model::Key;
use lsp_types::*;

pub const BASE: &str = "/basepath";

pub fn uri(key: &str) -> Url {
    Url::parse(&format!("file://{}/{}.md", BASE, key)).unwrap()
}

pub fn configuration(refs_ext: &str) -> Configuration {
    Configuration { markdown: MarkdownOptions { refs_extension: refs_ext.to_string() }, ..Default::default() }
}

/// `refs_ext` may carry a flavour after a '|': "<ext>|helix" (client name helix), "<ext>|models" (a default
/// model without API key and one custom action), "<ext>|helix+models"
pub fn new_server(texts: &BTreeMap<String, String>, refs_ext: &str) -> Server {
    let state: HashMap<String, String> = texts.iter().map(|(k, v)| (k.clone(), v.clone())).collect();
    let (ext, flavour) = match refs_ext.split_once('|') {
        Some((e, f)) => (e, f),
        None => (refs_ext, ""),
    };
    let mut configuration = configuration(ext);
    if flavour.contains("models") {
        configuration.models.insert(
            "default".into(),
            liwe::model::config::Model { api_key_env: String::new(), base_url: "http://127.0.0.1:9".into(), name: "none".into(), max_tokens: None, max_completion_tokens: None, temperature: None },
        );
        configuration.actions.insert(
            "rewrite".into(),
            liwe::model::config::BlockAction { title: "Rewrite".into(), model: "default".into(), prompt_template: "{{context}}".into(), context: liwe::model::config::Context::Document },
        );
    }
    Server::new(ServerConfig {
        base_path: BASE.to_string(),
        state,
        sequential_ids: Some(true),
        configuration,
        lsp_client: if flavour.contains("helix") { LspClient::Helix } else { LspClient::Unknown },
    })
}

pub fn did_change(server: &mut Server, key: &str, text: &str) {
    did_change_v(server, key, text, 1)
}

pub fn did_change_v(server: &mut Server, key: &str, text: &str, version: i32) {
    server.handle_did_change_text_document(DidChangeTextDocumentParams {
        text_document: VersionedTextDocumentIdentifier { uri: uri(key), version },
        content_changes: vec![TextDocumentContentChangeEvent { range: None, range_length: None, text: text.to_string() }],
    });
}

pub fn did_save(server: &mut Server, key: &str, text: Option<&str>) {
    server.handle_did_save_text_document(DidSaveTextDocumentParams {
        text_document: TextDocumentIdentifier { uri: uri(key) },
        text: text.map(|t| t.to_string()),
    });
}

pub fn guarded<T>(f: impl FnOnce() -> T) -> Result<T, String> {
    catch_unwind(AssertUnwindSafe(f)).map_err(|e| {
        let m = if let Some(s) = e.downcast_ref::<&str>() {
            s.to_string()
        } else if let Some(s) = e.downcast_ref::<String>() {
            s.clone()
        } else {
            "?".to_string()
        };
        format!("PANIC({})", normalise_panic(&m))
    })
}

/// panic text without numbers (node ids / line numbers differ legitimately between arenas)
pub fn normalise_panic(m: &str) -> String {
    let mut out = String::new();
    let mut last_digit = false;
    for c in m.chars() {
        if c.is_ascii_digit() {
            if !last_digit {
                out.push('#');
            }
            last_digit = true;
        } else {
            out.push(c);
            last_digit = false;
        }
    }
    out.chars().take(80).collect()
}

fn pos_params(key: &str, line: u32, ch: u32) -> TextDocumentPositionParams {
    TextDocumentPositionParams { text_document: TextDocumentIdentifier { uri: uri(key) }, position: Position::new(line, ch) }
}

pub fn short_uri(u: &Url) -> String {
    u.as_str().trim_start_matches("file://").trim_start_matches(BASE).trim_start_matches('/').to_string()
}

pub fn fmt_doc_changes(dc: &Option<DocumentChanges>) -> String {
    match dc {
        None => "none".into(),
        Some(DocumentChanges::Edits(e)) => format!("edits{}", e.len()),
        Some(DocumentChanges::Operations(ops)) => ops
            .iter()
            .map(|op| match op {
                DocumentChangeOperation::Op(ResourceOp::Create(c)) => format!("create({})", short_uri(&c.uri)),
                DocumentChangeOperation::Op(ResourceOp::Delete(d)) => format!("delete({})", short_uri(&d.uri)),
                DocumentChangeOperation::Op(ResourceOp::Rename(r)) => format!("rename({},{})", short_uri(&r.old_uri), short_uri(&r.new_uri)),
                DocumentChangeOperation::Edit(e) => format!(
                    "edit({},{})",
                    short_uri(&e.text_document.uri),
                    e.edits
                        .iter()
                        .map(|x| match x {
                            OneOf::Left(t) => format!("{}:{}-{}:{}={:?}", t.range.start.line, t.range.start.character, t.range.end.line, t.range.end.character, t.new_text),
                            OneOf::Right(a) => format!("ann{:?}", a.text_edit.new_text),
                        })
                        .collect::<Vec<_>>()
                        .join(";")
                ),
            })
            .collect::<Vec<_>>()
            .join(" | "),
    }
}

pub fn formatting(server: &Server, key: &str) -> Result<String, String> {
    guarded(|| {
        server
            .handle_document_formatting(DocumentFormattingParams {
                text_document: TextDocumentIdentifier { uri: uri(key) },
                options: Default::default(),
                work_done_progress_params: Default::default(),
            })
            .into_iter()
            .map(|e| e.new_text)
            .collect::<Vec<_>>()
            .join("\u{1}")
    })
}

pub fn references(server: &Server, key: &str) -> Result<String, String> {
    guarded(|| {
        let mut v: Vec<String> = server
            .handle_references(ReferenceParams {
                text_document_position: pos_params(key, 0, 0),
                work_done_progress_params: Default::default(),
                partial_result_params: Default::default(),
                context: ReferenceContext { include_declaration: false },
            })
            .into_iter()
            .map(|l| format!("{}@{}-{}", short_uri(&l.uri), l.range.start.line, l.range.end.line))
            .collect();
        v.sort();
        v.join(",")
    })
}

pub fn hints(server: &Server, key: &str) -> Result<String, String> {
    guarded(|| {
        let mut v: Vec<String> = server
            .handle_inlay_hints(InlayHintParams {
                text_document: TextDocumentIdentifier { uri: uri(key) },
                range: Range::new(Position::new(0, 0), Position::new(u32::MAX, 0)),
                work_done_progress_params: Default::default(),
            })
            .into_iter()
            .map(|h| {
                format!(
                    "{}:{}",
                    h.position.line,
                    match h.label {
                        InlayHintLabel::String(s) => s,
                        _ => "?".into(),
                    }
                )
            })
            .collect();
        v.sort();
        v.join(",")
    })
}

pub fn workspace_symbols(server: &Server, query: &str) -> Result<String, String> {
    guarded(|| {
        match server.handle_workspace_symbols(WorkspaceSymbolParams { query: query.to_string(), ..Default::default() }) {
            WorkspaceSymbolResponse::Flat(v) => {
                v.into_iter().map(|s| format!("{}|{:?}|{}|{}", s.name, s.kind, short_uri(&s.location.uri), s.location.range.start.line)).collect::<Vec<_>>().join("\n")
            }
            _ => "nested".into(),
        }
    })
}

pub fn document_symbols(server: &Server, key: &str) -> Result<String, String> {
    guarded(|| {
        server
            .handle_document_symbols(DocumentSymbolParams {
                text_document: TextDocumentIdentifier { uri: uri(key) },
                work_done_progress_params: Default::default(),
                partial_result_params: Default::default(),
            })
            .into_iter()
            .map(|s| format!("{}|{}|{}", s.name, short_uri(&s.location.uri), s.location.range.start.line))
            .collect::<Vec<_>>()
            .join("\n")
    })
}

pub fn completion(server: &Server, key: &str) -> Result<String, String> {
    guarded(|| {
        match server.handle_completion(CompletionParams {
            text_document_position: pos_params(key, 0, 0),
            work_done_progress_params: Default::default(),
            partial_result_params: Default::default(),
            context: None,
        }) {
            CompletionResponse::List(l) => {
                // a completion list is a set the client orders by sortText; items with equal labels come out in
                // hash-map order even on a fresh server, so it is compared as a sorted multiset
                let mut v = l.items.into_iter().map(|i| format!("{}=>{}|{}", i.label, i.insert_text.unwrap_or_default(), i.sort_text.unwrap_or_default())).collect::<Vec<_>>();
                v.sort();
                v.join("\n")
            }
            CompletionResponse::Array(a) => format!("array{}", a.len()),
        }
    })
}

pub fn definition(server: &Server, key: &str, line: u32, ch: u32) -> Result<String, String> {
    guarded(|| {
        match server.handle_goto_definition(GotoDefinitionParams {
            text_document_position_params: pos_params(key, line, ch),
            work_done_progress_params: Default::default(),
            partial_result_params: Default::default(),
        }) {
            GotoDefinitionResponse::Scalar(l) => short_uri(&l.uri),
            GotoDefinitionResponse::Array(a) => format!("array{}", a.len()),
            GotoDefinitionResponse::Link(a) => format!("link{}", a.len()),
        }
    })
}

pub fn prepare_rename(server: &Server, key: &str, line: u32, ch: u32) -> Result<String, String> {
    guarded(|| match server.handle_prepare_rename(pos_params(key, line, ch)) {
        Some(PrepareRenameResponse::RangeWithPlaceholder { range, placeholder }) => {
            format!("{}:{}-{}:{} {}", range.start.line, range.start.character, range.end.line, range.end.character, placeholder)
        }
        Some(_) => "other".into(),
        None => "none".into(),
    })
}

pub fn rename(server: &Server, key: &str, line: u32, ch: u32, new_name: &str) -> Result<String, String> {
    guarded(|| {
        match server.handle_rename(RenameParams {
            text_document_position: pos_params(key, line, ch),
            new_name: new_name.to_string(),
            work_done_progress_params: Default::default(),
        }) {
            Ok(Some(e)) => fmt_doc_changes(&e.document_changes),
            Ok(None) => "none".into(),
            Err(e) => format!("err({})", e.message),
        }
    })
}

pub fn code_actions(server: &Server, key: &str, line: u32) -> Result<Vec<CodeAction>, String> {
    code_actions_in(server, key, line, 0)
}

/// `span` > 0: a non-empty selection of that many characters (only the helix client gets actions for it)
pub fn code_actions_in(server: &Server, key: &str, line: u32, span: u32) -> Result<Vec<CodeAction>, String> {
    guarded(|| {
        server
            .handle_code_action(&CodeActionParams {
                text_document: TextDocumentIdentifier { uri: uri(key) },
                range: Range::new(Position::new(line, 0), Position::new(line, span)),
                context: Default::default(),
                work_done_progress_params: Default::default(),
                partial_result_params: Default::default(),
            })
            .into_iter()
            .filter_map(|a| match a {
                CodeActionOrCommand::CodeAction(a) => Some(a),
                _ => None,
            })
            .collect()
    })
}

pub fn fmt_actions(a: &[CodeAction]) -> String {
    a.iter().map(|a| format!("{}[{}]", a.title, a.kind.as_ref().map(|k| k.as_str().to_string()).unwrap_or_default())).collect::<Vec<_>>().join(",")
}

pub fn resolve(server: &Server, action: &CodeAction) -> Result<String, String> {
    guarded(|| {
        let r = server.handle_code_action_resolve(action);
        fmt_doc_changes(&r.edit.and_then(|e| e.document_changes))
    })
}

/// (key, full new text) pairs of the edits in the `pick`-th code action offered at `line`, resolved
pub fn action_edits(server: &Server, key: &str, line: u32, pick: usize) -> Vec<(String, String)> {
    let acts = match code_actions(server, key, line) {
        Ok(a) if !a.is_empty() => a,
        _ => return vec![],
    };
    let a = &acts[pick % acts.len()];
    let resolved = match guarded(|| server.handle_code_action_resolve(a)) {
        Ok(r) => r,
        Err(_) => return vec![],
    };
    let mut out = vec![];
    if let Some(WorkspaceEdit { document_changes: Some(DocumentChanges::Operations(ops)), .. }) = resolved.edit {
        for op in ops {
            if let DocumentChangeOperation::Edit(e) = op {
                let k = short_uri(&e.text_document.uri).trim_end_matches(".md").to_string();
                for x in e.edits {
                    if let OneOf::Left(t) = x {
                        out.push((k.clone(), t.new_text));
                    }
                }
            }
        }
    }
    out
}

/// (kind, plain text) of the block found at each line of `key`, as the server's graph sees it
pub fn blocks_at_lines(server: &Server, key: &str, lines: usize) -> Result<String, String> {
    guarded(|| {
        let graph = server.verif_database().graph();
        let k = Key::from_file_name(key);
        let mut out: Vec<String> = vec![];
        for line in 0..lines {
            let d = match graph.get_node_id_at(&k, line) {
                None => "-".to_string(),
                Some(id) => {
                    let n = graph.node(id);
                    format!("{}:{}", graph.graph_node(id).to_symbol(), n.plain_text())
                }
            };
            out.push(d);
        }
        out.join("|")
    })
}

pub fn title(server: &Server, key: &str) -> Result<String, String> {
    guarded(|| format!("{:?}", server.verif_database().graph().get_key_title(&Key::from_file_name(key))))
}

pub fn rendered_paths(server: &Server) -> Result<String, String> {
    guarded(|| {
        let graph = server.verif_database().graph();
        let mut v: Vec<String> = graph
            .paths()
            .iter()
            .map(|p| {
                format!(
                    "{}:{}",
                    graph.node(p.target()).node_key(),
                    p.ids().iter().map(|id| graph.get_text(*id).trim().to_string()).collect::<Vec<_>>().join(" • ")
                )
            })
            .collect();
        v.sort();
        v.join("\n")
    })
}

pub fn global_search(server: &Server, query: &str) -> Result<String, String> {
    guarded(|| {
        server
            .verif_database()
            .global_search(query)
            .iter()
            .map(|p| format!("{}|{}|{}|{}|{}", p.search_text, p.key, p.line, p.root, p.node_rank))
            .collect::<Vec<_>>()
            .join("\n")
    })
}

pub fn content(server: &Server, key: &str) -> Result<String, String> {
    guarded(|| format!("{:?}", server.verif_database().get_document(&Key::from_file_name(key))))
}

#[derive(Clone, Debug)]
pub struct ObsCfg {
    pub queries: Vec<String>,
    /// lines per note on which code actions are listed (all lines are used for block-at-line)
    pub action_lines: usize,
    /// how many offered actions are resolved per note
    pub resolves: usize,
    pub positions: usize,
}

/// Full observation: ordered list of (label, value). Values are Ok(text) or "PANIC(..)".
pub fn observe(server: &Server, texts: &BTreeMap<String, String>, cfg: &ObsCfg, pick: &mut crate::rng::Rng) -> Vec<(String, String)> {
    let mut out: Vec<(String, String)> = vec![];
    let mut put = |label: String, v: Result<String, String>| {
        out.push((label, v.unwrap_or_else(|e| e)));
    };
    for (key, text) in texts {
        put(format!("format:{}", key), formatting(server, key));
        put(format!("title:{}", key), title(server, key));
        put(format!("content:{}", key), content(server, key));
        put(format!("refs:{}", key), references(server, key));
        put(format!("hints:{}", key), hints(server, key));
        put(format!("dsym:{}", key), document_symbols(server, key));
        let nlines = text.lines().count() + 1;
        put(format!("blockat:{}", key), blocks_at_lines(server, key, nlines));
        // positions: link-bearing lines for definition / prepareRename / rename
        let link_lines: Vec<(usize, usize)> = text.lines().enumerate().filter_map(|(i, l)| l.find("](").or(l.find("[[")).map(|c| (i, c))).collect();
        for n in 0..cfg.positions.min(link_lines.len()) {
            let (l, c) = link_lines[(pick.below(link_lines.len()) + n) % link_lines.len()];
            for ch in [c as u32 + 2, c as u32 + 3, 1] {
                put(format!("def:{}:{}:{}", key, l, ch), definition(server, key, l as u32, ch));
                put(format!("prep:{}:{}:{}", key, l, ch), prepare_rename(server, key, l as u32, ch));
            }
            put(format!("rename:{}:{}", key, l), rename(server, key, l as u32, c as u32 + 3, "renamed-note"));
        }
        put(format!("actions-selection:{}", key), code_actions_in(server, key, 0, 3).map(|a| fmt_actions(&a)));
        let mut resolved = 0;
        for n in 0..cfg.action_lines.min(nlines) {
            let line = if cfg.action_lines >= nlines { n } else { pick.below(nlines) };
            match code_actions(server, key, line as u32) {
                Err(e) => put(format!("actions:{}:{}", key, line), Err(e)),
                Ok(acts) => {
                    put(format!("actions:{}:{}", key, line), Ok(fmt_actions(&acts)));
                    if resolved < cfg.resolves && !acts.is_empty() {
                        let a = &acts[pick.below(acts.len())];
                        resolved += 1;
                        put(format!("resolve:{}:{}:{}", key, line, a.kind.as_ref().map(|k| k.as_str().to_string()).unwrap_or_default()), resolve(server, a));
                    }
                }
            }
        }
    }
    if let Some(k) = texts.keys().next() {
        put("completion".to_string(), completion(server, k));
    }
    put("paths".to_string(), rendered_paths(server));
    for q in &cfg.queries {
        put(format!("wsym:{}", q), workspace_symbols(server, q));
        put(format!("gsearch:{}", q), global_search(server, q));
    }
    out
}

/// which observable class a label belongs to (for signatures)
pub fn label_class(label: &str) -> &str {
    label.split(':').next().unwrap_or(label)
}
