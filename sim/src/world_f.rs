//! World F — the `iwe` CLI on a faulty disk (C19). DESIGN.md 4.6, 5.5.
//!
//! Real: the `iwe` binary built from /repo with the guard off, the kernel file system (a scratch directory).
//! Simulated: the libc boundary (LD_PRELOAD shim with a per-path fault plan), entropy, readdir order.

use std::collections::BTreeMap;
use std::os::unix::fs::{MetadataExt, PermissionsExt};
use std::path::{Path, PathBuf};
use std::process::{Command, Stdio};

use serde::{Deserialize, Serialize};

use crate::gen::{self, Gen, GenCfg};
use crate::rng::Rng;

#[derive(Clone, Debug, Serialize, Deserialize, PartialEq)]
pub struct FileSpec {
    /// path relative to the working directory of the run
    pub rel: String,
    /// content as lossless latin-1-escaped string would be unreadable; keep bytes as a vector of numbers only
    /// when not UTF-8
    #[serde(default)]
    pub text: Option<String>,
    #[serde(default)]
    pub bytes: Option<Vec<u8>>,
    pub mode: u32,
    /// the path is a symbolic link to this target (relative to the link's directory); text/bytes then hold the
    /// target's content, which is what reading the link yields
    #[serde(default)]
    pub symlink: Option<String>,
}

impl FileSpec {
    pub fn content(&self) -> Vec<u8> {
        match (&self.text, &self.bytes) {
            (Some(t), _) => t.as_bytes().to_vec(),
            (None, Some(b)) => b.clone(),
            _ => vec![],
        }
    }
}

#[derive(Clone, Debug, Serialize, Deserialize, PartialEq)]
pub struct Tree {
    pub files: Vec<FileSpec>,
    pub empty_dirs: Vec<String>,
    /// library.path of the configuration ("" = the working directory)
    pub library: String,
    pub refs_ext: String,
    pub has_config: bool,
}

#[derive(Clone, Debug, PartialEq)]
pub struct Snap {
    /// file content; for a symbolic link the link target (the link itself is the path's "content")
    pub bytes: Vec<u8>,
    pub mtime_ns: i128,
    pub mode: u32,
    pub ino: u64,
    pub is_symlink: bool,
}

pub fn is_note_path(rel: &str) -> bool {
    Path::new(rel).extension().map_or(false, |e| e == "md")
}

/// the harness's own path -> key mapping: relative to the library root, one `.md` stripped
pub fn key_of(rel_in_library: &str) -> String {
    rel_in_library.strip_suffix(".md").unwrap_or(rel_in_library).to_string()
}

pub fn path_class(rel: &str) -> &'static str {
    let name = rel.rsplit('/').next().unwrap_or(rel);
    if name.ends_with(".md.md") {
        "double-md"
    } else if rel.split('/').any(|s| s.starts_with('.')) {
        "dot-dir"
    } else if !rel.is_ascii() {
        "non-ascii"
    } else if rel.contains(' ') {
        "space"
    } else if rel.contains('/') {
        "nested"
    } else {
        "plain"
    }
}

pub fn generate(seed: u64, thorough: bool) -> Tree {
    let mut swarm = Rng::stream(seed, "swarm");
    let mut work = Rng::stream(seed, "workload");
    let max_notes = if thorough { 14 } else { 8 };
    let n_notes = swarm.range(1, max_notes);
    let has_config = swarm.chance(1, 3);
    let library = if has_config && swarm.chance(1, 3) { "notes".to_string() } else { String::new() };
    let refs_ext = if has_config && swarm.chance(1, 2) { ".md".to_string() } else { String::new() };
    let odd_names = swarm.chance(1, 2);
    let double_md = swarm.chance(1, 12);
    let dirs: Vec<&str> = if swarm.chance(1, 3) { vec![""] } else { vec!["", "", "sub", "sub/deep", "with space", "dötted", ".hidden", "x.md", ".iwe"] };
    let plain = ["a", "b", "c", "d", "e", "f", "g", "h", "i", "j", "k", "l", "m", "n", "o", "Todo", "todo", "B", "2024.01.15", "2024.01", "v1.2 release"];
    let long_name: String = format!("L{}", "x".repeat(swarm.range(243, 251))); // + ".md" = 247..255 bytes
    let odd: Vec<&str> = vec![
        "note one", "ünï", "c.d", "2024-01-01", "UPPER", "日本", "a b c", "x.y.z", "-dash", "q", "release%20notes", "100%", "a&b", "x=y", "semi;colon", "(paren)", "[brk]", "comma,s",
        "q'uote", "#hash", "what?", "plus+plus", "tilde~", "at@home", "dollar$", "caret^", "back`tick", "excl!", "percent%41", long_name.as_str(),
    ];
    let mut keys: Vec<String> = vec![];
    let mut guard = 0;
    while keys.len() < n_notes && guard < 200 {
        guard += 1;
        let d = *work.pick(&dirs);
        let n: &str = if odd_names && work.chance(1, 2) { *work.pick(&odd[..]) } else { *work.pick(&plain[..]) };
        let k = if d.is_empty() { n.to_string() } else { format!("{}/{}", d, n) };
        if !keys.contains(&k) {
            keys.push(k);
        }
    }
    if double_md && keys[0].rsplit('/').next().map(|n| n.len()).unwrap_or(0) < 200 {
        let base = keys[0].clone();
        let k = format!("{}.md", base);
        if !keys.contains(&k) {
            keys.push(k);
        }
    }
    let mut targets = keys.clone();
    targets.push("zz".to_string());
    let cfg = GenCfg { keys: keys.clone(), targets, max_blocks: swarm.range(1, 7), max_depth: 3 };
    let lib_prefix = if library.is_empty() { String::new() } else { format!("{}/", library) };
    let mut files = vec![];
    for k in &keys {
        let text = match work.below(12) {
            0 => String::new(),
            1 => "\n".to_string(),
            _ => {
                let d = Gen { rng: &mut work, cfg: &cfg }.doc();
                gen::render(k, &d)
            }
        };
        let mode = if work.chance(1, 10) { 0o600 } else { 0o644 };
        files.push(FileSpec { rel: format!("{}{}.md", lib_prefix, k), text: Some(text), bytes: None, mode, symlink: None });
    }
    // non-note files
    let extras: Vec<(&str, Vec<u8>)> = vec![
        ("readme.txt", b"plain text [x](a)\n".to_vec()),
        ("data.bin", vec![0, 159, 146, 150, 255, 10, 13, 0]),
        ("noext", b"# not a note\n".to_vec()),
        ("NOTE.MD", b"# upper  case   ext\n\n\n\ntext\n".to_vec()),
        (".dotfile", b"x".to_vec()),
        ("b.md~", b"# backup\n".to_vec()),
        ("c.markdown", b"#   other   ext\n".to_vec()),
        ("sub/notes.txt", b"nested non note\n".to_vec()),
        ("bad-utf8.md", vec![b'#', b' ', 0xff, 0xfe, b'\n']),
        ("a.md.tmp", b"someone else's temp file\n".to_vec()),
        ("a.md.bak", b"backup\n".to_vec()),
        (".iwe-0.tmp", b"not ours\n".to_vec()),
        ("sub/.iwe-0.tmp", b"not ours either\n".to_vec()),
    ];
    for (name, bytes) in extras {
        if work.chance(1, 4) {
            let rel = format!("{}{}", lib_prefix, name);
            if !files.iter().any(|f| f.rel == rel) {
                files.push(FileSpec { rel, text: None, bytes: Some(bytes), mode: 0o644, symlink: None });
            }
        }
    }
    if !library.is_empty() && work.chance(1, 2) {
        // a note outside the library: must not be touched
        files.push(FileSpec { rel: "outside.md".into(), text: Some("#   outside   the library\n\n\n\ntext\n".into()), bytes: None, mode: 0o644, symlink: None });
    }
    if work.chance(1, 6) {
        // a note that is a symbolic link: to another note of the library, or (library in a sub-directory) to a file outside
        let notes: Vec<FileSpec> = files.iter().filter(|f| f.rel.starts_with(&lib_prefix) && is_note_path(&f.rel) && f.text.is_some() && !f.rel[lib_prefix.len()..].contains('/')).cloned().collect();
        if let Some(t) = notes.first() {
            let name = t.rel[lib_prefix.len()..].to_string();
            files.push(FileSpec { rel: format!("{}links/alias.md", lib_prefix), text: t.text.clone(), bytes: None, mode: 0o644, symlink: Some(format!("../{}", name)) });
        }
        if !library.is_empty() {
            let outside = "#   outside   target\n\n\n\n* star item\n".to_string();
            files.push(FileSpec { rel: "outside-target.md".into(), text: Some(outside.clone()), bytes: None, mode: 0o644, symlink: None });
            files.push(FileSpec { rel: format!("{}ext.md", lib_prefix), text: Some(outside), bytes: None, mode: 0o644, symlink: Some("../outside-target.md".into()) });
        }
    }
    if has_config {
        let toml = format!("prompt_key_prefix = \"prompt\"\n\n[markdown]\nrefs_extension = \"{}\"\n\n[library]\npath = \"{}\"\n\n[models]\n\n[actions]\n", refs_ext, library);
        files.push(FileSpec { rel: ".iwe/config.toml".into(), text: Some(toml), bytes: None, mode: 0o644, symlink: None });
    }
    let empty_dirs = if work.chance(1, 4) { vec![format!("{}emptydir", lib_prefix)] } else { vec![] };
    Tree { files, empty_dirs, library, refs_ext, has_config }
}

pub fn materialise(tree: &Tree, root: &Path) -> std::io::Result<()> {
    std::fs::create_dir_all(root)?;
    if !tree.library.is_empty() {
        std::fs::create_dir_all(root.join(&tree.library))?;
    }
    for d in &tree.empty_dirs {
        std::fs::create_dir_all(root.join(d))?;
    }
    for f in &tree.files {
        let p = root.join(&f.rel);
        if let Some(parent) = p.parent() {
            std::fs::create_dir_all(parent)?;
        }
        if let Some(target) = &f.symlink {
            std::os::unix::fs::symlink(target, &p)?;
            continue;
        }
        std::fs::write(&p, f.content())?;
        std::fs::set_permissions(&p, std::fs::Permissions::from_mode(f.mode))?;
    }
    Ok(())
}

pub fn snapshot(root: &Path) -> BTreeMap<String, Snap> {
    fn walk(root: &Path, dir: &Path, out: &mut BTreeMap<String, Snap>) {
        let rd = match std::fs::read_dir(dir) {
            Ok(r) => r,
            Err(_) => return,
        };
        for e in rd.flatten() {
            let p = e.path();
            let rel = p.strip_prefix(root).unwrap().to_string_lossy().to_string();
            let md = match std::fs::symlink_metadata(&p) {
                Ok(m) => m,
                Err(_) => continue,
            };
            if md.is_dir() {
                out.insert(format!("{}/", rel), Snap { bytes: vec![], mtime_ns: 0, mode: md.mode() & 0o7777, ino: 0, is_symlink: false });
                walk(root, &p, out);
            } else {
                let is_symlink = md.file_type().is_symlink();
                let bytes = if is_symlink { std::fs::read_link(&p).map(|t| t.to_string_lossy().as_bytes().to_vec()).unwrap_or_default() } else { std::fs::read(&p).unwrap_or_default() };
                out.insert(rel, Snap { bytes, mtime_ns: md.mtime() as i128 * 1_000_000_000 + md.mtime_nsec() as i128, mode: md.mode() & 0o7777, ino: md.ino(), is_symlink });
            }
        }
    }
    let mut out = BTreeMap::new();
    walk(root, root, &mut out);
    out
}

/// The content the in-memory export defines, per note path (relative to the run's working directory).
/// None = these texts make even the in-memory build panic (C03 shape): the tree is discarded.
/// Paths whose keys collide under iwe's own key derivation are reported in `collisions`.
pub struct Expected {
    /// acceptable complete new contents per note path (more than one only when keys collide)
    pub by_path: BTreeMap<String, Vec<Vec<u8>>>,
    pub collisions: Vec<String>,
}

pub fn expected(tree: &Tree) -> Option<Expected> {
    let lib_prefix = if tree.library.is_empty() { String::new() } else { format!("{}/", tree.library) };
    let mut state: std::collections::HashMap<String, String> = std::collections::HashMap::new();
    let mut path_of_key: BTreeMap<String, String> = BTreeMap::new();
    // iwe's own derivation strips every trailing ".md": several paths may meet in one key
    let mut groups: BTreeMap<String, Vec<String>> = BTreeMap::new();
    for f in &tree.files {
        if !f.rel.starts_with(&lib_prefix) || !is_note_path(&f.rel) {
            continue;
        }
        let text = match String::from_utf8(f.content()) {
            Ok(t) => t,
            Err(_) => continue, // unreadable as text: iwe skips it, so it must stay untouched
        };
        let in_lib = &f.rel[lib_prefix.len()..];
        let key = key_of(in_lib);
        let iwe_key = liwe::model::Key::from_file_name(&key).to_string();
        groups.entry(iwe_key).or_default().push(key.clone());
        state.insert(key.clone(), text);
        path_of_key.insert(key, f.rel.clone());
    }
    let opts = liwe::model::config::MarkdownOptions { refs_extension: tree.refs_ext.clone() };
    let colliding_groups: Vec<&Vec<String>> = groups.values().filter(|g| g.len() > 1).collect();
    let collisions: Vec<String> = colliding_groups.iter().flat_map(|g| g.iter().map(|k| path_of_key[k].clone())).collect();
    // survivor choices: one member per colliding group (the export is a function of the paths only once the
    // collision is resolved one way or the other)
    let mut choices: Vec<Vec<String>> = vec![vec![]];
    for g in &colliding_groups {
        let mut next = vec![];
        for c in &choices {
            for m in g.iter() {
                let mut c2 = c.clone();
                c2.push(m.clone());
                next.push(c2);
            }
        }
        choices = next;
        if choices.len() > 8 {
            return None;
        }
    }
    let mut by_path: BTreeMap<String, Vec<Vec<u8>>> = BTreeMap::new();
    for survivors in &choices {
        let mut st = state.clone();
        for g in &colliding_groups {
            for m in g.iter() {
                if !survivors.contains(m) {
                    st.remove(m);
                }
            }
        }
        let o = opts.clone();
        let exported = crate::canon::guarded(|| liwe::graph::Graph::import(&st, o).export()).ok()?;
        for (key, rel) in &path_of_key {
            if !st.contains_key(key) {
                continue;
            }
            let iwe_key = liwe::model::Key::from_file_name(key).to_string();
            match exported.get(&iwe_key) {
                Some(t) => by_path.entry(rel.clone()).or_default().push(t.as_bytes().to_vec()),
                None => return None,
            }
        }
    }
    Some(Expected { by_path, collisions })
}

#[derive(Clone, Debug, Serialize, Deserialize, PartialEq)]
pub struct TraceOp {
    pub op: String,
    pub path: String,
    pub detail: String,
    #[serde(default)]
    pub len: usize,
}

pub struct RunResult {
    pub exit_code: i32,
    pub killed: bool,
    pub trace: Vec<TraceOp>,
    pub stderr_tail: String,
}

pub struct RunCfg<'a> {
    pub iwe: &'a Path,
    pub shim: &'a Path,
    pub entropy: u64,
    pub readdir: u64,
    pub threads: usize,
    pub plan: Option<&'a str>,
}

pub fn run_iwe(root: &Path, scratch: &Path, args: &[&str], cfg: &RunCfg) -> std::io::Result<(RunResult, Vec<u8>)> {
    let trace_file = scratch.join("trace.log");
    let plan_file = scratch.join("plan.txt");
    let _ = std::fs::remove_file(&trace_file);
    let mut cmd = Command::new(cfg.iwe);
    cmd.args(args).current_dir(root).stdin(Stdio::null()).stdout(Stdio::piped()).stderr(Stdio::piped());
    cmd.env("LD_PRELOAD", cfg.shim).env("SIMLIBC_ROOT", root).env("SIMLIBC_TRACE", &trace_file).env("VERIF_ENTROPY", cfg.entropy.to_string()).env("VERIF_READDIR", cfg.readdir.to_string()).env("RAYON_NUM_THREADS", cfg.threads.to_string()).env_remove("IWE_DEBUG").env("RUST_BACKTRACE", "0");
    match cfg.plan {
        Some(p) => {
            std::fs::write(&plan_file, p)?;
            cmd.env("SIMLIBC_PLAN", &plan_file);
        }
        None => {
            cmd.env_remove("SIMLIBC_PLAN");
        }
    }
    let out = cmd.output()?;
    let code = out.status.code().unwrap_or(-1);
    let trace_text = std::fs::read_to_string(&trace_file).unwrap_or_default();
    let mut trace = vec![];
    let mut killed = false;
    for line in trace_text.lines() {
        if line == "KILL" {
            killed = true;
            continue;
        }
        // "<op> <path possibly with spaces> [k=v ...] -> result"
        let (left, result) = match line.rsplit_once(" -> ") {
            Some(x) => x,
            None => continue,
        };
        let (op, rest) = match left.split_once(' ') {
            Some(x) => x,
            None => continue,
        };
        // strip trailing " key=value" tokens
        let mut path = rest.to_string();
        let mut len = 0usize;
        loop {
            match path.rsplit_once(' ') {
                Some((a, b)) if b.contains('=') && (b.starts_with("flags=") || b.starts_with("len=") || b.starts_with("from=")) => {
                    if let Some(l) = b.strip_prefix("len=") {
                        len = l.parse().unwrap_or(0);
                    }
                    path = a.to_string();
                }
                _ => break,
            }
        }
        trace.push(TraceOp { op: op.to_string(), path, detail: result.to_string(), len });
    }
    let stderr = String::from_utf8_lossy(&out.stderr);
    let tail: String = stderr.lines().rev().take(3).collect::<Vec<_>>().join(" | ");
    Ok((RunResult { exit_code: code, killed: killed || code == 137, trace, stderr_tail: tail }, out.stdout))
}

#[derive(Clone, Debug, Serialize, Deserialize, PartialEq)]
pub struct Violation {
    pub kind: String,
    pub path: String,
    pub signature: String,
    pub detail: String,
}

pub struct Judge<'a> {
    pub tree: &'a Tree,
    pub before: &'a BTreeMap<String, Snap>,
    pub after: &'a BTreeMap<String, Snap>,
    pub expected: &'a Expected,
    /// label of the fault ("fault-free", "write/partial/mid", ...)
    pub fault: &'a str,
    /// the run was not supposed to fail (fault-free, short writes, EINTR)
    pub must_succeed: bool,
    pub exit_code: i32,
    pub killed: bool,
    /// paths whose unlink was made to fail by the plan
    pub unlink_failed: &'a [String],
}

fn is_temp_like(rel: &str) -> bool {
    !is_note_path(rel)
}

pub fn judge(j: &Judge) -> Vec<Violation> {
    let mut v = vec![];
    let lib_prefix = if j.tree.library.is_empty() { String::new() } else { format!("{}/", j.tree.library) };
    let mk = |kind: &str, path: &str, detail: String| Violation {
        kind: kind.to_string(),
        path: path.to_string(),
        signature: format!("{}/{}/{}", j.fault, path_class(path), kind),
        detail,
    };
    for (rel, b) in j.before {
        if rel.ends_with('/') {
            if !j.after.contains_key(rel) {
                v.push(mk("directory-removed", rel, format!("directory {} disappeared", rel)));
            }
            continue;
        }
        let in_lib = rel.starts_with(&lib_prefix);
        let note = in_lib && is_note_path(rel) && std::str::from_utf8(&b.bytes).is_ok();
        let a = match j.after.get(rel) {
            Some(a) => a,
            None => {
                v.push(mk(if note { "note-missing" } else { "non-note-removed" }, rel, format!("{} existed before and is gone", rel)));
                continue;
            }
        };
        if !note {
            if a.bytes != b.bytes {
                v.push(mk("non-note-changed", rel, format!("{} is not a readable note of the library but its content changed ({} -> {} bytes)", rel, b.bytes.len(), a.bytes.len())));
            } else if a.mtime_ns != b.mtime_ns || a.ino != b.ino {
                v.push(mk("non-note-touched", rel, format!("{} is not a readable note of the library but was rewritten (mtime/inode changed)", rel)));
            }
            continue;
        }
        let exp = j.expected.by_path.get(rel);
        let is_old = a.bytes == b.bytes;
        let is_new = exp.map(|e| e.iter().any(|x| *x == a.bytes)).unwrap_or(false);
        // (the file mode is not part of the property: a rewrite that changes it is not reported)
        let colliding = j.expected.collisions.iter().any(|c| c == rel);
        if colliding && !is_new {
            // several paths share one key under iwe's derivation: the note either receives the text of
            // the other path or is never written back. Anything else (truncation, garbage) is judged normally.
            let sibling_text = j.expected.collisions.iter().filter(|c| *c != rel).any(|c| j.expected.by_path.get(c).map(|e| e.iter().any(|x| *x == a.bytes)).unwrap_or(false));
            if sibling_text || (is_old && j.must_succeed) {
                v.push(Violation {
                    kind: "key-collision".into(),
                    path: rel.clone(),
                    signature: "any/key-collision".into(),
                    detail: format!("{} shares its key with {:?}: it {}", rel, j.expected.collisions.iter().filter(|c| *c != rel).collect::<Vec<_>>(), if sibling_text { "now holds the other note's text" } else { "was never written back" }),
                });
                continue;
            }
        }
        if j.must_succeed {
            if !is_new {
                let kind = if is_old { "not-rewritten" } else { "wrong-content" };
                v.push(mk(kind, rel, format!("{}: expected the in-memory export ({} bytes), found {} bytes{}", rel, exp.and_then(|e| e.first()).map(|e| e.len()).unwrap_or(0), a.bytes.len(), if is_old { " (still the old text)" } else { "" })));
            }
        } else if !is_old && !is_new {
            let e = exp.and_then(|e| e.first()).cloned().unwrap_or_default();
            let kind = if a.bytes.is_empty() {
                "empty"
            } else if e.starts_with(&a.bytes) || b.bytes.starts_with(&a.bytes) {
                "truncated"
            } else {
                "mixed"
            };
            v.push(mk(kind, rel, format!("{} holds {} bytes: neither its complete old text ({} bytes) nor its complete new text ({} bytes)", rel, a.bytes.len(), b.bytes.len(), e.len())));
        }
    }
    for (rel, _) in j.after {
        if j.before.contains_key(rel) {
            continue;
        }
        if rel.ends_with('/') {
            v.push(mk("directory-created", rel, format!("directory {} was created", rel)));
        } else if is_note_path(rel) {
            v.push(mk("new-note-file", rel, format!("{} did not exist before the run", rel)));
        } else if is_temp_like(rel) {
            if !j.killed && !j.unlink_failed.iter().any(|p| p == rel) {
                v.push(mk("leftover-file", rel, format!("{} was created and left behind although the process was not killed (exit {})", rel, j.exit_code)));
            }
        }
    }
    if j.must_succeed && j.exit_code != 0 {
        v.push(mk("exit-nonzero", "", format!("iwe normalize exited with {} although nothing was made to fail", j.exit_code)));
    }
    v
}

pub fn scratch_root() -> PathBuf {
    crate::runner::verif_path(&format!("target/scratch/fs-{}", std::process::id()))
}
