//! World H — histories against the restart model (C04, C20). DESIGN.md 4.4, 5.1, 5.6.
//!
//! Real: iwes Server (public handlers) + liwe Database/Graph. Simulated: the editor's sequence of edits
//! and the fault "server dies and is restarted on the texts the editor holds".

use std::collections::{BTreeMap, BTreeSet, HashMap};

use serde::{Deserialize, Serialize};

use crate::canon::{self, guarded, ObsCfg};
use crate::gen::{self, Doc, Gen, GenCfg};
use crate::rng::{self, Rng};
use crate::walker::{self, ArenaHistory};

use liwe::graph::{Graph, GraphContext, GraphPatch};
use liwe::model::tree::TreeIter;
use liwe::model::Key;

fn one() -> i32 {
    1
}

#[derive(Clone, Debug, Serialize, Deserialize, PartialEq)]
#[serde(tag = "op")]
pub enum Op {
    Change {
        key: String,
        text: String,
        class: String,
        /// document version the editor sends with the change (restarts after close/reopen)
        #[serde(default = "one")]
        version: i32,
    },
    Save { key: String, text: Option<String>, class: String },
    Restart,
    /// format-on-save: the editor applies the server's own formatting answer and sends it back
    ApplyFormat { key: String },
    /// refactor-then-type: the editor resolves the `pick`-th code action offered at `line` and applies its edits
    ApplyAction { key: String, line: u32, pick: usize },
}

impl Op {
    pub fn class(&self) -> String {
        match self {
            Op::Change { class, .. } => class.clone(),
            Op::Save { class, text, .. } => format!("save{}:{}", if text.is_some() { "" } else { "-notext" }, class),
            Op::Restart => "restart".into(),
            Op::ApplyFormat { .. } => "apply_format".into(),
            Op::ApplyAction { .. } => "apply_action".into(),
        }
    }
}

#[derive(Clone, Debug, Serialize, Deserialize, PartialEq)]
pub struct History {
    pub refs_ext: String,
    pub library: BTreeMap<String, String>,
    pub ops: Vec<Op>,
    pub queries: Vec<String>,
    pub pick_seed: u64,
    #[serde(default)]
    pub probes: Vec<String>,
}

#[derive(Clone, Debug, Serialize, Deserialize, PartialEq)]
pub struct Violation {
    pub property: String,
    /// -1: initial import
    pub step: i64,
    pub label: String,
    pub inc: String,
    pub fresh: String,
    pub signature: String,
}

#[derive(Default, Debug)]
pub struct Outcome {
    pub violations: Vec<Violation>,
    pub steps: u64,
    pub comparisons: u64,
    pub probes: BTreeMap<String, u64>,
    pub discarded: bool,
    pub max_arena: usize,
    pub patches_checked: u64,
    pub digest: u64,
}

#[derive(Clone, Copy, PartialEq, Debug)]
pub enum Tier {
    Quick,
    Thorough,
}

pub fn generate(seed: u64, tier: Tier) -> History {
    let mut swarm = Rng::stream(seed, "swarm");
    let mut work = Rng::stream(seed, "workload");
    let (max_notes, max_ops, max_blocks) = match tier {
        Tier::Quick => (5, 10, 7),
        Tier::Thorough => (8, 40, 10),
    };
    // now and then a library large enough for the result limits (100 search hits) and rank ties to matter
    let big_library = swarm.chance(1, if tier == Tier::Thorough { 150 } else { 400 });
    // one run in 25 starts on an empty library (every note arrives through didChange)
    let empty_start = !big_library && swarm.chance(1, 25);
    let n_notes = if big_library { swarm.range(40, 130) } else if empty_start { 0 } else { swarm.range(1, max_notes) };
    let n_future = if empty_start { swarm.range(2, 4) } else { swarm.range(0, 2) };
    let with_dirs = swarm.chance(1, 3);
    let refs_ext = format!("{}{}", if swarm.chance(1, 4) { ".md" } else { "" }, *swarm.pick(&["", "", "", "|helix", "|models", "|helix+models"]));
    let marathon = swarm.chance(1, if tier == Tier::Thorough { 40 } else { 300 });
    // a long session on a big note: tens of thousands of removed nodes and line slots
    let heavy = !big_library && !empty_start && swarm.chance(1, if tier == Tier::Thorough { 300 } else { 3000 });
    let n_ops = if heavy { swarm.range(350, 380) } else if marathon && !big_library { swarm.range(120, 320) } else if big_library { swarm.range(1, 5) } else { swarm.range(1, max_ops) };
    let poison_pct = *swarm.pick(&[0u32, 0, 0, 4, 8]);
    let restart_pct = if heavy { 0 } else { *swarm.pick(&[0u32, 0, 5, 10, 25]) };
    let save_pct = *swarm.pick(&[0u32, 10, 30]);
    let apply_pct = *swarm.pick(&[0u32, 0, 10, 25]);
    // swarm: enabled mutation subset
    let mut enabled: Vec<usize> = (0..gen::MUTATIONS.len()).filter(|_| swarm.chance(1, 2)).collect();
    while enabled.len() < 4 {
        let m = swarm.below(gen::MUTATIONS.len());
        if !enabled.contains(&m) {
            enabled.push(m);
        }
    }
    let mut probes_init: Vec<String> = vec![];
    let mut all_keys = gen::key_pool(n_notes + n_future, with_dirs);
    if all_keys.len() >= 2 && swarm.chance(1, 8) {
        // pairs of names that a sloppy key derivation would merge: letter case, dotted stems
        match swarm.below(3) {
            0 => {
                all_keys[0] = "Todo".into();
                all_keys[1] = "todo".into();
            }
            1 => {
                all_keys[0] = "2024.01.15".into();
                all_keys[1] = "2024.01.16".into();
            }
            _ => {
                all_keys[0] = "v1.2".into();
                all_keys[1] = "v1".into();
            }
        }
    } else if !all_keys.is_empty() && swarm.chance(1, 20) {
        // a note whose file is called draft.md.md (its key, on the unchanged tree, is `draft`)
        all_keys[0] = "draft.md".into();
    }
    let lib_keys: Vec<String> = all_keys[..n_notes].to_vec();
    let mut targets = all_keys.clone();
    targets.push("zz".to_string());
    let cfg = GenCfg { keys: lib_keys.clone(), targets, max_blocks: if marathon || big_library { 3 } else { swarm.range(2, max_blocks) }, max_depth: 3 };
    if marathon {
        probes_init.push("marathon-history".to_string());
    }

    let mut docs: BTreeMap<String, Doc> = BTreeMap::new();
    let mut library = BTreeMap::new();
    for k in &lib_keys {
        let d = Gen { rng: &mut work, cfg: &cfg }.doc();
        library.insert(k.clone(), gen::render(k, &d));
        docs.insert(k.clone(), d);
    }
    if heavy {
        if let Some(k) = lib_keys.first() {
            let mut blocks = vec![gen::Block::Heading { level: 1, inl: vec![gen::Inline::Word("big".into())], setext: false }];
            let mut g = Gen { rng: &mut work, cfg: &cfg };
            blocks.push(g.table());
            for i in 0..g.rng.range(230, 290) {
                blocks.push(if i % 17 == 5 { g.block_ref() } else { gen::Block::Para(vec![g.inlines(20)]) });
            }
            let d = Doc { front: None, blocks, trailing_newline: true, bom: false };
            library.insert(k.clone(), gen::render(k, &d));
            docs.insert(k.clone(), d);
        }
        probes_init.push("heavy-session".to_string());
    }
    let mut ops = vec![];
    let mut versions: BTreeMap<String, i32> = BTreeMap::new();
    let mut probes: BTreeSet<String> = probes_init.into_iter().collect();
    let mut version = 0;
    for _ in 0..n_ops {
        if work.chance(restart_pct, 100) {
            ops.push(Op::Restart);
            probes.insert("restart-fired".into());
            continue;
        }
        if work.chance(poison_pct, 100) && !docs.is_empty() {
            // a text the parser/builder is known not to survive (carve-out c03-shapes), then the repair
            let ks: Vec<String> = docs.keys().cloned().collect();
            let key = work.pick(&ks).clone();
            let good = gen::render(&key, &docs[&key]);
            let shape = *work.pick(&["- ```\n  code\n  ```\n", "- > quoted\n\n  more text\n", "- > # heading in quote\n\n  more text\n\n- [x](1)\n", "1. ```rust\n   let a = 1;\n   ```\n\n   tail\n"]);
            let bad = format!("{}\n\n{}", good.trim_end(), shape);
            ops.push(Op::Change { key: key.clone(), text: bad, class: "c03-shape".into(), version: next_version(&mut versions, &key, &mut work) });
            if work.chance(1, 3) && ks.len() > 1 {
                // the server keeps serving other notes while one is torn
                let other = work.pick(&ks).clone();
                if other != key {
                    version += 1;
                    let vtok = format!("v{}", version);
                    let mut g = Gen { rng: &mut work, cfg: &cfg };
                    let m = *g.rng.pick(&enabled);
                    let name = gen::mutate(&mut g, docs.get_mut(&other).unwrap(), m, &vtok);
                    let t = gen::render(&other, &docs[&other]);
                    { let version = next_version(&mut versions, &other, &mut work); ops.push(Op::Change { key: other, text: t, class: format!("while-torn:{}", name), version }); }
                }
            }
            { let version = next_version(&mut versions, &key, &mut work); ops.push(Op::Change { key, text: good, class: "repair-after-c03-shape".into(), version }); }
            probes.insert("aborted-update-and-repair".into());
            continue;
        }
        if work.chance(apply_pct, 100) && !docs.is_empty() {
            let ks: Vec<String> = docs.keys().cloned().collect();
            let key = work.pick(&ks).clone();
            if work.chance(1, 3) {
                ops.push(Op::ApplyFormat { key });
            } else {
                ops.push(Op::ApplyAction { key, line: work.below(12) as u32, pick: work.below(6) });
            }
            probes.insert("server-produced-text-applied".into());
            continue;
        }
        version += 1;
        let vtok = format!("v{}", version);
        // pick a key: mostly existing, sometimes a future one (new file)
        let existing: Vec<String> = docs.keys().cloned().collect();
        let future: Vec<String> = all_keys.iter().filter(|k| !docs.contains_key(*k)).cloned().collect();
        let (key, is_new) = if !future.is_empty() && (existing.is_empty() || work.chance(1, 6)) {
            (work.pick(&future).clone(), true)
        } else if !existing.is_empty() {
            if heavy && work.chance(4, 5) {
                (existing[0].clone(), false)
            } else {
                (work.pick(&existing).clone(), false)
            }
        } else {
            break;
        };
        let class: String;
        let mut g = Gen { rng: &mut work, cfg: &cfg };
        if is_new {
            // does some note already link to it?
            let mut ks = vec![];
            for d in docs.values() {
                gen::referenced_keys(&d.blocks, &mut ks);
            }
            if ks.contains(&key) {
                probes.insert("new-note-resolves-dangling-link".into());
            }
            let d = g.doc();
            docs.insert(key.clone(), d);
            class = "new_note".into();
        } else {
            let before = docs[&key].clone();
            let mut m = *g.rng.pick(&enabled);
            if heavy {
                // a long session stays on a big note: no wholesale replacement or emptying
                while ["fresh_document", "empty_note"].contains(&gen::MUTATIONS[m % gen::MUTATIONS.len()]) {
                    m = g.rng.below(gen::MUTATIONS.len());
                }
            }
            let doc = docs.get_mut(&key).unwrap();
            let name = gen::mutate(&mut g, doc, m, &vtok);
            class = name.to_string();
            // probes
            let others_ref_key = docs.iter().any(|(k, d)| {
                if *k == key {
                    return false;
                }
                let mut ks = vec![];
                gen::referenced_keys(&d.blocks, &mut ks);
                ks.contains(&key)
            });
            let after = &docs[&key];
            let had_heading = matches!(before.blocks.first(), Some(gen::Block::Heading { .. }));
            let has_heading = matches!(after.blocks.first(), Some(gen::Block::Heading { .. }));
            if had_heading && !has_heading && others_ref_key {
                probes.insert("heading-removed-from-linked-note".into());
            }
            let mut kb = vec![];
            gen::referenced_keys(&before.blocks, &mut kb);
            let mut ka = vec![];
            gen::referenced_keys(&after.blocks, &mut ka);
            if kb.iter().any(|k| !ka.contains(k)) {
                probes.insert("last-reference-removed".into());
            }
            let tb = before.blocks.iter().position(|b| matches!(b, gen::Block::Table { .. }));
            let ta = after.blocks.iter().position(|b| matches!(b, gen::Block::Table { .. }));
            if let (Some(i), Some(j)) = (tb, ta) {
                if before.blocks[i + 1..] != after.blocks[j + 1..] {
                    probes.insert("block-after-table-changed".into());
                }
            }
            if before == *after {
                probes.insert("same-text-resent".into());
            }
            if after.blocks.is_empty() && !before.blocks.is_empty() {
                probes.insert("note-emptied".into());
            }
        }
        let text = gen::render(&key, &docs[&key]);
        if work.chance(save_pct, 100) {
            let with_text = work.chance(3, 4);
            if !with_text {
                // a save without text changes nothing: keep the model's document as it was
                // (re-render happens from docs, so revert the mutation)
                ops.push(Op::Save { key: key.clone(), text: None, class });
                // revert model doc to the last sent text is not possible structurally; instead send
                // the text in a following change so that model and docs stay in step
                ops.push(Op::Change { key: key.clone(), text, class: "after_textless_save".into(), version: next_version(&mut versions, &key, &mut work) });
            } else {
                ops.push(Op::Save { key, text: Some(text), class });
            }
        } else {
            let version = next_version(&mut versions, &key, &mut work);
            ops.push(Op::Change { key, text, class, version });
        }
    }
    let mut queries = vec![String::new()];
    for _ in 0..2 {
        queries.push(work.pick(gen::WORDS).to_string());
    }
    queries.push(format!("v{}", work.range(1, version.max(1))));
    History { refs_ext, library, ops, queries, pick_seed: rng::mix2(seed, 77), probes: probes.into_iter().collect() }
}

/// version numbers mostly increase; now and then the editor closes and reopens the note and starts again at 1
fn next_version(versions: &mut BTreeMap<String, i32>, key: &str, rng: &mut Rng) -> i32 {
    let v = versions.entry(key.to_string()).or_insert(0);
    if *v >= 2 && rng.chance(1, 6) {
        *v = 0;
    }
    *v += 1;
    *v
}

fn op_kind(model: &BTreeMap<String, String>, op: &Op) -> &'static str {
    match op {
        Op::Restart => "restart",
        Op::ApplyFormat { .. } | Op::ApplyAction { .. } => "update",
        Op::Change { key, .. } | Op::Save { key, .. } => {
            if model.contains_key(key) {
                "update"
            } else {
                "insert"
            }
        }
    }
}

fn first_diff(a: &[(String, String)], b: &[(String, String)]) -> Option<(String, String, String)> {
    for i in 0..a.len().max(b.len()) {
        match (a.get(i), b.get(i)) {
            (Some(x), Some(y)) => {
                if x != y {
                    return Some((x.0.clone(), x.1.clone(), if x.0 == y.0 { y.1.clone() } else { format!("<label {}> {}", y.0, y.1) }));
                }
            }
            (Some(x), None) => return Some((x.0.clone(), x.1.clone(), "<absent>".into())),
            (None, Some(y)) => return Some((y.0.clone(), "<absent>".into(), y.1.clone())),
            (None, None) => {}
        }
    }
    None
}

/// Patch-graph constructions the way the handlers build them; every patch must be a well-formed forest.
fn check_patches(graph: &Graph, key: &str, pick: &mut Rng, out: &mut Outcome) -> Option<(String, walker::Broken)> {
    let k = Key::from_file_name(key);
    let src_shapes = walker::check(graph).ok().map(|(_, s)| s);
    // 1. formatting patch: build_key + insert_from_iter(collect)
    let r = guarded(|| {
        let mut patch = graph.new_patch();
        patch.build_key(&k).insert_from_iter(graph.collect(&k).iter());
        patch
    });
    if let Ok(patch) = r {
        out.patches_checked += 1;
        match walker::check(&patch) {
            Err(b) => return Some(("patch:build_key+collect".into(), b)),
            Ok((_, shapes)) => {
                if let Some(src) = &src_shapes {
                    if let (Some(a), Some(b)) = (shapes.get(key), src.get(key)) {
                        if a.0 != b.0 {
                            return Some(("patch:build_key+collect".into(), walker::Broken { invariant: 4, what: format!("patch copy of note {} has a different pre-order than the library note", key) }));
                        }
                    }
                }
            }
        }
    }
    // 2. add_key / build_key_from_iter with transformed trees
    let tree = match guarded(|| graph.collect(&k)) {
        Ok(t) => t,
        Err(_) => return None,
    };
    let mut ids: Vec<u64> = vec![];
    fn all_ids(t: &liwe::model::tree::Tree, out: &mut Vec<u64>) {
        if let Some(i) = t.id {
            out.push(i);
        }
        for c in &t.children {
            all_ids(c, out);
        }
    }
    all_ids(&tree, &mut ids);
    fn strip_ids(t: &liwe::model::tree::Tree) -> liwe::model::tree::Tree {
        liwe::model::tree::Tree { id: None, node: t.node.clone(), children: t.children.iter().map(strip_ids).collect() }
    }
    let foreign = strip_ids(&tree);
    if ids.is_empty() {
        return None;
    }
    let target = *pick.pick(&ids);
    let other = Key::from_file_name("other-key");
    let variants: Vec<(&str, Box<dyn Fn() -> liwe::model::tree::Tree>)> = vec![
        ("change_key", Box::new(|| tree.change_key(&k, &other))),
        ("wrap_into_list", Box::new(|| tree.wrap_into_list(target))),
        ("unwrap_list", Box::new(|| tree.unwrap_list(target))),
        ("change_list_type", Box::new(|| tree.change_list_type(target))),
        ("remove_node", Box::new(|| tree.remove_node(target))),
        ("append_pre_header", Box::new(|| tree.append_pre_header(target, foreign.clone()))),
        ("replace", Box::new(|| tree.replace(target, &foreign))),
        ("extract_sections", Box::new(|| tree.extract_sections(HashMap::from([(target, (other.clone(), "t".to_string()))])))),
        ("squash", Box::new(|| graph.squash(&k, (target % 4) as u8))),
    ];
    let n = variants.len();
    let start = pick.below(n);
    for j in 0..3 {
        let (name, f) = &variants[(start + j) % n];
        let built = guarded(|| {
            let t = f();
            // squash of a self-referencing note can be huge (C17's subject); GraphBuilder recurses once per
            // sibling, so a very long sibling chain is a stack-depth question of its own (C03) — not built here
            fn size(t: &liwe::model::tree::Tree) -> usize {
                1 + t.children.iter().map(size).sum::<usize>()
            }
            if size(&t) > 3000 {
                panic!("patch-tree-too-large");
            }
            let mut patch = graph.new_patch();
            if j % 2 == 0 {
                patch.build_key_from_iter(&k, TreeIter::new(&t));
            } else {
                patch.add_key(&k, TreeIter::new(&t));
            }
            // a second key in the same patch, as rename/extract do
            patch.build_key(&other).insert_from_iter(tree.iter());
            patch
        });
        if let Ok(patch) = built {
            out.patches_checked += 1;
            if let Err(b) = walker::check(&patch) {
                return Some((format!("patch:{}", name), b));
            }
            // exporting the patch must not reach outside it
            let _ = guarded(|| patch.export_key(&k));
        }
    }
    None
}

pub fn run(h: &History, with_patches: bool) -> Outcome {
    let mut out = Outcome::default();
    // a heavy session (hundreds of edits of one big note) is about thresholds in the arena, not about breadth of
    // observation: it is observed more lightly so that one such run does not dominate a quick batch
    let heavy_session = h.ops.len() > 330;
    let with_patches = with_patches && !heavy_session;
    let obs_cfg = if heavy_session { ObsCfg { queries: vec![String::new()], action_lines: 1, resolves: 0, positions: 0 } } else { ObsCfg { queries: h.queries.clone(), action_lines: 3, resolves: 1, positions: 1 } };
    let mut model = h.library.clone();
    let mut pick = Rng::new(h.pick_seed);
    let mut digest: u64 = 0xABCDEF;
    let have = |p: &str, out: &Outcome| out.violations.iter().any(|v| v.property == p);

    let mut inc = match guarded(|| canon::new_server(&model, &h.refs_ext)) {
        Ok(s) => s,
        Err(_) => {
            out.discarded = true;
            return out;
        }
    };
    let mut arena = ArenaHistory::default();

    // step -1: the import itself, then every op
    let mut step: i64 = -1;
    let mut idx = 0usize;
    loop {
        let kind: String;
        let class: String;
        if step >= 0 {
            if idx >= h.ops.len() {
                break;
            }
            let op = &h.ops[idx];
            idx += 1;
            kind = op_kind(&model, op).to_string();
            class = op.class();
            match op {
                Op::Restart => {
                    inc = match guarded(|| canon::new_server(&model, &h.refs_ext)) {
                        Ok(s) => s,
                        Err(_) => {
                            out.discarded = true;
                            return out;
                        }
                    };
                    arena = ArenaHistory::default();
                }
                Op::Change { key, text, .. } | Op::Save { key, text: Some(text), .. } => {
                    let is_save = matches!(op, Op::Save { .. });
                    let version = if let Op::Change { version, .. } = op { *version } else { 1 };
                    let r = guarded(|| {
                        if is_save {
                            canon::did_save(&mut inc, key, Some(text))
                        } else {
                            canon::did_change_v(&mut inc, key, text, version)
                        }
                    });
                    model.insert(key.clone(), text.clone());
                    if let Err(p) = r {
                        // does a fresh server accept these texts?
                        match guarded(|| canon::new_server(&model, &h.refs_ext)) {
                            Err(_) if class.contains("c03-shape") => {
                                // a deliberately unparseable text (the router swallows the panic and carries on):
                                // the update was aborted half-way. No fresh server exists for these texts, so C04 is
                                // not evaluated until the note is repaired; the forest invariants still are.
                                *out.probes.entry("aborted-update".into()).or_default() += 1;
                            }
                            Err(_) => {
                                out.discarded = true;
                                return out;
                            }
                            Ok(_) => {
                                out.violations.push(Violation {
                                    property: "C04".into(),
                                    step,
                                    label: "update".into(),
                                    inc: p,
                                    fresh: "fresh build of the same texts succeeds".into(),
                                    signature: format!("update-panicked/{}", class),
                                });
                                out.digest = digest;
                                return out;
                            }
                        }
                    }
                }
                Op::Save { key, text: None, .. } => {
                    let _ = guarded(|| canon::did_save(&mut inc, key, None));
                }
                Op::ApplyFormat { .. } | Op::ApplyAction { .. } => {
                    // the texts come from the long-lived server's own answers (which the previous step has
                    // already compared with a fresh server's)
                    let edits: Vec<(String, String)> = match op {
                        Op::ApplyFormat { key } => canon::formatting(&inc, key).ok().filter(|_| model.contains_key(key)).map(|t| vec![(key.clone(), t)]).unwrap_or_default(),
                        Op::ApplyAction { key, line, pick } => {
                            if model.contains_key(key) {
                                canon::action_edits(&inc, key, *line, *pick)
                            } else {
                                vec![]
                            }
                        }
                        _ => vec![],
                    };
                    if !edits.is_empty() {
                        *out.probes.entry(format!("{}-produced-{}-edits", class, edits.len().min(3))).or_default() += 1;
                    }
                    for (k, t) in edits {
                        // the server names notes by its own keys; the editor's file `draft.md.md` is the key `draft` there:
                        // file the edit under the editor's name for that key
                        let k = model.keys().find(|m| Key::from_file_name(m).to_string() == k).cloned().unwrap_or(k);
                        let r = guarded(|| canon::did_change(&mut inc, &k, &t));
                        model.insert(k.clone(), t.clone());
                        if r.is_err() {
                            match guarded(|| canon::new_server(&model, &h.refs_ext)) {
                                Err(_) => {
                                    out.discarded = true;
                                    return out;
                                }
                                Ok(_) => {
                                    out.violations.push(Violation { property: "C04".into(), step, label: "update".into(), inc: r.err().unwrap_or_default(), fresh: "fresh build of the same texts succeeds".into(), signature: format!("update-panicked/{}", class) });
                                    out.digest = digest;
                                    return out;
                                }
                            }
                        }
                    }
                }
            }
        } else {
            kind = "import".into();
            class = "import".into();
        }
        out.steps += 1;

        let fresh = match guarded(|| canon::new_server(&model, &h.refs_ext)) {
            Ok(s) => s,
            Err(_) => {
                if out.probes.contains_key("aborted-update") {
                    // some note currently holds a text no server can be built from: structural check only
                    if !have("C20", &out) {
                        let g = inc.verif_database().graph();
                        let r = walker::check(g).map(|_| ());
                        if let Err(b) = r {
                            out.violations.push(Violation { property: "C20".into(), step, label: format!("invariant {}", b.invariant), inc: b.what.clone(), fresh: String::new(), signature: format!("inv{}/aborted-update", b.invariant) });
                        }
                    }
                    step += 1;
                    continue;
                }
                out.discarded = true;
                return out;
            }
        };

        // ---- C04: every answer equals the fresh server's
        if !have("C04", &out) {
            let mut p1 = pick.clone();
            let mut p2 = pick.clone();
            let a = canon::observe(&inc, &model, &obs_cfg, &mut p1);
            let b = canon::observe(&fresh, &model, &obs_cfg, &mut p2);
            pick = p1;
            out.comparisons += a.len() as u64;
            for (l, v) in &a {
                digest = rng::mix2(digest, rng::fnv(l) ^ rng::fnv(v));
            }
            if a.iter().any(|(_, v)| v.starts_with("PANIC(")) {
                *out.probes.entry("observation-panicked-on-both".into()).or_default() += 1;
                if std::env::var("VERIF_DEBUG_PANICS").is_ok() {
                    for (l, v) in a.iter().filter(|(_, v)| v.starts_with("PANIC(")) {
                        eprintln!("DBG {} {}", canon::label_class(l), v);
                    }
                }
            }
            if let Some((label, iv, fv)) = first_diff(&a, &b) {
                let sig = format!("{}/{}", canon::label_class(&label), class);
                out.violations.push(Violation { property: "C04".into(), step, label, inc: iv, fresh: fv, signature: sig });
            }
        }

        // ---- C20: forest invariants on the long-lived graph, and against the fresh parse
        if !have("C20", &out) {
            let g = inc.verif_database().graph();
            out.max_arena = out.max_arena.max(g.nodes().len());
            let mut broken: Option<(String, walker::Broken)> = None;
            match walker::check(g) {
                Err(b) => broken = Some((kind.clone(), b)),
                Ok((stats, shapes)) => {
                    digest = rng::mix2(digest, stats.live_nodes as u64 * 31 + stats.tombstones as u64);
                    // id reuse / arena shrinking is recorded, not demanded: a correct compaction would do it too.
                    // What the property demands of removed versions is checked by invariants 3 and 8.
                    if arena.step(g).is_err() {
                        *out.probes.entry("arena-ids-reused-or-arena-shrank".into()).or_default() += 1;
                        arena = ArenaHistory::default();
                    }
                    {
                        match walker::check(fresh.verif_database().graph()) {
                            Err(b) => broken = Some(("import".into(), b)),
                            Ok((_, fshapes)) => {
                                if let Err(b) = walker::same_shapes(&shapes, &fshapes) {
                                    broken = Some((kind.clone(), b));
                                }
                            }
                        }
                        // 9. the block found at a line of a note is a live block of that note
                        if broken.is_none() {
                            'outer: for (key, text) in &model {
                                let k = Key::from_file_name(key);
                                for line in 0..text.lines().count() + 1 {
                                    if let Ok(Some(id)) = guarded(|| g.get_node_id_at(&k, line)) {
                                        let ok = (id as usize) < g.nodes().len() && !g.graph_node(id).is_empty() && guarded(|| g.key_of(id)).ok() == Some(k.clone());
                                        if !ok {
                                            broken = Some((kind.clone(), walker::Broken { invariant: 9, what: format!("the block found at line {} of note {} is block {}, which is {}", line, key, id, if (id as usize) < g.nodes().len() && g.graph_node(id).is_empty() { "a removed block" } else { "not a block of that note" }) }));
                                            break 'outer;
                                        }
                                    }
                                }
                            }
                        }
                        if !walker::ids_increasing(&shapes) {
                            *out.probes.entry("preorder-ids-not-increasing".into()).or_default() += 1;
                        }
                    }
                }
            }
            if broken.is_none() && with_patches && !model.is_empty() {
                let keys: Vec<&String> = model.keys().collect();
                let k = keys[pick.below(keys.len())].clone();
                broken = check_patches(g, &k, &mut pick, &mut out);
                // the library graph must be untouched by patch construction
                if broken.is_none() {
                    if let Err(b) = walker::check(g) {
                        broken = Some(("patch:library-after-patch".into(), b));
                    }
                }
            }
            if let Some((k, b)) = broken {
                out.violations.push(Violation { property: "C20".into(), step, label: format!("invariant {}", b.invariant), inc: b.what.clone(), fresh: String::new(), signature: format!("inv{}/{}", b.invariant, k) });
            }
        }
        if have("C04", &out) && have("C20", &out) {
            break;
        }
        step += 1;
        if step == 0 && h.ops.is_empty() {
            break;
        }
    }
    for p in &h.probes {
        *out.probes.entry(p.clone()).or_default() += 1;
    }
    out.digest = digest;
    out
}

/// hash of op kinds + mutation classes: the "history shape" used as the distinctness measure
pub fn shape_hash(h: &History) -> u64 {
    let mut x = rng::fnv(&h.refs_ext) ^ (h.library.len() as u64);
    for op in &h.ops {
        x = rng::mix2(x, rng::fnv(&op.class()));
    }
    x
}

// ------------------------------------------------------------------------------------------------
// minimisation (ddmin-style, bounded)

fn chunks(text: &str) -> Vec<String> {
    text.split("\n\n").map(|s| s.to_string()).collect()
}

pub fn minimise(h: &History, property: &str, signature: &str, budget: usize) -> (History, usize) {
    let mut best = h.clone();
    let mut used = 0usize;
    let started = std::time::Instant::now();
    let wall_cap = std::time::Duration::from_secs(60);
    let mut test = |cand: &History, used: &mut usize| -> bool {
        if *used >= budget || started.elapsed() > wall_cap {
            return false;
        }
        *used += 1;
        let o = run(cand, true);
        o.violations.iter().any(|v| v.property == property && v.signature == signature)
    };
    // 0. truncate after the violating step
    {
        let o = run(&best, true);
        used += 1;
        if let Some(v) = o.violations.iter().find(|v| v.property == property && v.signature == signature) {
            let keep = (v.step + 1).max(0) as usize;
            if keep < best.ops.len() {
                let mut c = best.clone();
                c.ops.truncate(keep);
                if test(&c, &mut used) {
                    best = c;
                }
            }
        }
    }
    // 1. drop ops: chunks of n/2, n/4, ... 1 (ddmin), within a wall-clock cap
    let t0 = std::time::Instant::now();
    let cap = std::time::Duration::from_secs(40);
    let mut chunk = (best.ops.len() / 2).max(1);
    loop {
        let mut i = 0;
        let mut removed_any = false;
        while i < best.ops.len() && used < budget && t0.elapsed() < cap {
            let mut c = best.clone();
            let end = (i + chunk).min(c.ops.len());
            c.ops.drain(i..end);
            if test(&c, &mut used) {
                best = c;
                removed_any = true;
            } else {
                i += chunk;
            }
        }
        if used >= budget || t0.elapsed() >= cap {
            break;
        }
        if chunk == 1 {
            if !removed_any {
                break;
            }
        } else {
            chunk = (chunk / 2).max(1);
        }
    }
    // 2. drop notes from the library
    let keys: Vec<String> = best.library.keys().cloned().collect();
    for k in keys {
        if used >= budget {
            break;
        }
        let mut c = best.clone();
        c.library.remove(&k);
        if test(&c, &mut used) {
            best = c;
        }
    }
    // 3. shrink texts chunk by chunk, then line by line
    for sep in ["\n\n", "\n"] {
        let lib_keys: Vec<String> = best.library.keys().cloned().collect();
        for k in lib_keys {
            let mut parts: Vec<String> = best.library[&k].split(sep).map(|s| s.to_string()).collect();
            let mut i = 0;
            while i < parts.len() && parts.len() > 1 && used < budget {
                let mut p2 = parts.clone();
                p2.remove(i);
                let mut c = best.clone();
                c.library.insert(k.clone(), p2.join(sep));
                if test(&c, &mut used) {
                    best = c;
                    parts = p2;
                } else {
                    i += 1;
                }
            }
        }
        for oi in 0..best.ops.len() {
            let text = match &best.ops[oi] {
                Op::Change { text, .. } => text.clone(),
                Op::Save { text: Some(t), .. } => t.clone(),
                _ => continue,
            };
            let mut parts: Vec<String> = text.split(sep).map(|s| s.to_string()).collect();
            let mut i = 0;
            while i < parts.len() && parts.len() > 1 && used < budget {
                let mut p2 = parts.clone();
                p2.remove(i);
                let mut c = best.clone();
                match &mut c.ops[oi] {
                    Op::Change { text, .. } => *text = p2.join(sep),
                    Op::Save { text: Some(t), .. } => *t = p2.join(sep),
                    _ => {}
                }
                if test(&c, &mut used) {
                    best = c;
                    parts = p2;
                } else {
                    i += 1;
                }
            }
        }
    }
    let _ = chunks;
    // queries: keep only what is needed
    if used < budget {
        let mut c = best.clone();
        c.queries = vec![String::new()];
        if test(&c, &mut used) {
            best = c;
        }
    }
    (best, used)
}
