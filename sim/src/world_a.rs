//! World A — an LSP session under a controlled scheduler (C11, C12). DESIGN.md 4.3, 5.2, 5.3.

use std::collections::{BTreeMap, BTreeSet, HashMap};

use lsp_server::{Message, Notification, Request, RequestId, Response};
use serde::{Deserialize, Serialize};
use serde_json::{json, Value};

use crate::canon::{normalise_panic, BASE};
use crate::gen::{self, Doc, Gen, GenCfg};
use crate::rng::{self, Rng};
use crate::sched::{Choice, Mode, Policy, SchedError, System, TState, POLICIES};
use iwes::verif::Point;

#[derive(Clone, Debug, Serialize, Deserialize, PartialEq)]
#[serde(tag = "step")]
pub enum Step {
    /// didChange / didSave / any other notification, concrete
    Notify { method: String, params: Value, #[serde(default)] class: String },
    /// a request, concrete; the id is assigned when sent unless `id` is given (duplicate-id fault)
    Request { method: String, params: Value, #[serde(default)] fault: String, #[serde(default)] id: Option<i64> },
    /// codeAction/resolve of action number `pick` returned by the request sent by step `parent`
    ResolveOf { parent: usize, pick: usize, #[serde(default)] fault: String },
    /// apply the edits returned by step `parent` (formatting or resolve) to the client's texts: didChange each
    ApplyOf { parent: usize },
    /// a Response sent by the client that answers nothing
    StrayResponse { id: i64 },
    /// exit notification (ends the loop)
    Exit,
    /// the client drops the connection without exit
    Crash,
}

#[derive(Clone, Debug, Serialize, Deserialize, PartialEq)]
pub struct Program {
    pub refs_ext: String,
    pub client_name: String,
    /// "plain" | "models" (a default model + one custom action, so executeCommand / custom actions run offline)
    pub config: String,
    pub library: BTreeMap<String, String>,
    pub steps: Vec<Step>,
    /// keys probed with formatting at quiescence
    pub final_probe: bool,
    /// production mode: the library is written to a scratch directory and the server started on the path
    /// (state: None => notes read from disk, random fresh-note names). URIs in the program stay under
    /// /basepath and are re-based onto the directory when sent (and back when received).
    #[serde(default)]
    pub disk: bool,
    /// at quiescence send the full battery (not only formatting) and compare with a freshly started server
    #[serde(default)]
    pub final_battery: bool,
}

static DISK_COUNTER: std::sync::atomic::AtomicU64 = std::sync::atomic::AtomicU64::new(0);

struct RemoveDirOnDrop(Option<std::path::PathBuf>);
impl Drop for RemoveDirOnDrop {
    fn drop(&mut self) {
        if let Some(d) = &self.0 {
            let _ = std::fs::remove_dir_all(d);
        }
    }
}

fn rebase(m: &Message, from: &str, to: &str) -> Message {
    // rewrite inside the JSON values only: a round trip of the whole message would turn `result: null`
    // (Some(Null)) into an absent result
    let a = format!("file://{}/", from);
    let b = format!("file://{}/", to);
    let fix = |v: &Value| -> Value {
        let t = v.to_string();
        if t.contains(&a) {
            serde_json::from_str(&t.replace(&a, &b)).unwrap_or_else(|_| v.clone())
        } else {
            v.clone()
        }
    };
    match m {
        Message::Request(r) => Message::Request(Request { id: r.id.clone(), method: r.method.clone(), params: fix(&r.params) }),
        Message::Notification(n) => Message::Notification(Notification { method: n.method.clone(), params: fix(&n.params) }),
        Message::Response(r) => Message::Response(Response { id: r.id.clone(), result: r.result.as_ref().map(fix), error: r.error.clone() }),
    }
}

/// the URI an editor would send for the note: percent-encoded by the url crate
pub fn uri_str(key: &str) -> String {
    lsp_types::Url::parse(&format!("file://{}/{}.md", BASE, key)).map(|u| u.to_string()).unwrap_or_else(|_| format!("file://{}/{}.md", BASE, key))
}

pub fn server_params(p: &Program) -> iwes::ServerParams {
    let mut configuration = crate::canon::configuration(&p.refs_ext);
    if p.config == "models" || p.config == "models-unreachable" {
        // "models-unreachable": an API key variable that is set and an endpoint that refuses connections, so that the
        // LLM client really runs (offline) and has to fail
        let model = liwe::model::config::Model { api_key_env: if p.config == "models" { String::new() } else { "PATH".into() }, base_url: "http://127.0.0.1:9".into(), name: "none".into(), max_tokens: None, max_completion_tokens: None, temperature: None };
        configuration.models.insert("default".into(), model);
        configuration.actions.insert(
            "rewrite".into(),
            liwe::model::config::BlockAction { title: "Rewrite".into(), model: "default".into(), prompt_template: "{{context}}".into(), context: liwe::model::config::Context::Document },
        );
    }
    iwes::ServerParams {
        state: Some(p.library.iter().map(|(k, v)| (k.clone(), v.clone())).collect::<HashMap<_, _>>()),
        sequential_ids: Some(true),
        client_name: Some(p.client_name.clone()),
        configuration,
        base_path: BASE.to_string(),
    }
}

fn is_doc_notification(m: &Message) -> bool {
    match m {
        // an edit notification is one that carries a text to apply; a didChange with an empty contentChanges
        // array or a didSave without text changes nothing and cannot be "lost"
        Message::Notification(n) => {
            (n.method == "textDocument/didChange" && n.params.pointer("/contentChanges/0/text").map(|t| t.is_string()).unwrap_or(false))
                || (n.method == "textDocument/didSave" && n.params.get("text").map(|t| t.is_string()).unwrap_or(false))
        }
        _ => false,
    }
}

#[derive(Clone, Debug, Serialize, Deserialize)]
pub struct Sent {
    pub msg: Message,
    /// program step that produced it (usize::MAX for harness probes)
    pub step: usize,
    pub seq: u64,
    /// doc notifications sent before this message
    pub p: usize,
    #[serde(default)]
    pub fault: String,
}

#[derive(Clone, Debug, Serialize, Deserialize)]
pub struct Recv {
    pub msg: Message,
    pub seq: u64,
    /// doc notifications sent when the client saw it
    pub p: usize,
}

#[derive(Default, Debug)]
pub struct Trace {
    pub sent: Vec<Sent>,
    pub received: Vec<Recv>,
    pub choices: Vec<Choice>,
    pub loop_panics: Vec<(u64, String)>,
    pub worker_panics: Vec<(u64, String)>,
    pub worker_msg: BTreeMap<u64, u64>,
    pub loop_result: Option<Result<(), String>>,
    pub steps: u64,
    pub probes: BTreeMap<String, u64>,
    pub states: BTreeSet<u64>,
    pub sched_sig: u64,
    pub digest: u64,
    pub blocked: Vec<u64>,
    pub notifications_sent: usize,
    pub crashed: bool,
    pub exited: bool,
    /// hook events (tid, point) in order
    pub events: Vec<(u64, String)>,
    /// the editor's texts (uri -> text) when the program was exhausted
    pub final_texts: BTreeMap<String, String>,
    /// the run contained real parallelism (Overlap choices): its event order is not reproducible
    pub racy: bool,
}

fn request_id_of(step_idx: usize) -> i64 {
    1000 + step_idx as i64
}

fn response_for<'a>(received: &'a [Recv], id: &RequestId) -> Vec<&'a Recv> {
    received.iter().filter(|r| matches!(&r.msg, Message::Response(x) if &x.id == id)).collect()
}

/// Execute `program` against the real router under `mode`.
pub fn execute(program: &Program, mode: &mut Mode, budget_mult: usize) -> Result<Trace, SchedError> {
    // unscheduled threads (none on the unchanged tree) start after a seeded delay of up to 2 ms
    crate::entropy::wild_config(rng::fnv(&serde_json::to_string(&program.steps).unwrap_or_default()) | 1, 2000);
    let mut params = server_params(program);
    let mut disk_dir: Option<std::path::PathBuf> = None;
    if program.disk {
        let n = DISK_COUNTER.fetch_add(1, std::sync::atomic::Ordering::SeqCst);
        let dir = crate::runner::verif_path(&format!("target/scratch/disk-{}-{}", std::process::id(), n));
        let _ = std::fs::remove_dir_all(&dir);
        for (k, t) in &program.library {
            let p = dir.join(format!("{}.md", k));
            if let Some(parent) = p.parent() {
                let _ = std::fs::create_dir_all(parent);
            }
            let _ = std::fs::write(&p, t);
        }
        let _ = std::fs::create_dir_all(&dir);
        params.state = None;
        params.base_path = dir.to_string_lossy().to_string();
        disk_dir = Some(dir);
    }
    let disk_base: Option<String> = disk_dir.as_ref().map(|d| d.to_string_lossy().to_string());
    let _cleanup = RemoveDirOnDrop(disk_dir.clone());
    let mut sys = System::start(params).map_err(SchedError::Stuck)?;
    let mut tr = Trace::default();
    let mut seq: u64 = 0;
    let mut next_step = 0usize;
    let mut texts: BTreeMap<String, String> = program.library.iter().map(|(k, v)| (uri_str(k), v.clone())).collect();
    // request id sent by each step (for dependents)
    let mut step_req: BTreeMap<usize, RequestId> = BTreeMap::new();
    let mut handled_seen: u64 = 0;
    let budget = (program.steps.len() + 4) * budget_mult + 60;

    macro_rules! drain {
        () => {
            for m in sys.drain() {
                let m = match &disk_base {
                    Some(d) => rebase(&m, d, BASE),
                    None => m,
                };
                seq += 1;
                tr.digest = rng::mix2(tr.digest, rng::fnv(&serde_json::to_string(&canonical_incoming(&m)).unwrap_or_default()));
                tr.received.push(Recv { msg: m, seq, p: tr.notifications_sent });
            }
        };
    }

    // is the next program step enabled?  (Some(true) ready, Some(false) must wait, None exhausted)
    let step_ready = |next_step: usize, tr: &Trace, step_req: &BTreeMap<usize, RequestId>, sys: &System| -> Option<bool> {
        if tr.crashed || tr.exited {
            return None;
        }
        let st = program.steps.get(next_step)?;
        match st {
            Step::ResolveOf { parent, .. } | Step::ApplyOf { parent } => {
                match step_req.get(parent) {
                    None => Some(true), // parent sent nothing: the dependent resolves to nothing
                    Some(id) => {
                        if !response_for(&tr.received, id).is_empty() {
                            return Some(true);
                        }
                        // parent can no longer answer: its worker exited (or was never spawned and loop is idle with empty inbox)
                        let sent_idx = tr.sent.iter().position(|s| matches!(&s.msg, Message::Request(r) if &r.id == id)).unwrap_or(usize::MAX) as u64;
                        let g = sys.ctl.lock();
                        let worker = g.worker_msg.iter().find(|(_, m)| **m == sent_idx).map(|(t, _)| *t);
                        match worker {
                            Some(t) => Some(matches!(g.threads.get(&t), Some(TState::Exited))),
                            None => Some(g.loop_handled > sent_idx),
                        }
                    }
                }
            }
            _ => Some(true),
        }
    };

    let mut steps = 0usize;
    loop {
        if sys.blocked.len() >= 2 {
            // two threads already hang: every further request would cost another watchdog period and tell nothing new
            break;
        }
        let ready = step_ready(next_step, &tr, &step_req, &sys);
        let view = sys.view(ready == Some(true));
        let choice = match mode.choose(&view)? {
            Some(c) => c,
            None => {
                // nothing schedulable: if unscheduled threads are still alive, the system is not idle yet
                if crate::entropy::wild_live() > 0 && crate::entropy::wait_wild_threads(2000) {
                    drain!();
                    if sys.view(step_ready(next_step, &tr, &step_req, &sys) == Some(true)).enabled().is_empty() {
                        break;
                    }
                    continue;
                }
                break;
            }
        };
        steps += 1;
        if steps > budget {
            let _ = sys.finish();
            return Err(SchedError::Budget(tr.choices.clone()));
        }
        tr.choices.push(choice.clone());
        tr.sched_sig = rng::mix2(tr.sched_sig, match &choice {
            Choice::Send => 1,
            Choice::Run { t } => 2 + *t,
            Choice::Overlap { t } => 1000 + *t,
        });
        match choice {
            Choice::Send => {
                let idx = next_step;
                next_step += 1;
                let mut out: Vec<(Message, String)> = vec![];
                match &program.steps[idx] {
                    Step::Notify { method, params, .. } => {
                        if method == "textDocument/didChange" || method == "textDocument/didSave" {
                            if let (Some(u), Some(t)) = (params.pointer("/textDocument/uri").and_then(|v| v.as_str()), params.pointer("/contentChanges/0/text").or(params.get("text")).and_then(|v| v.as_str())) {
                                texts.insert(u.to_string(), t.to_string());
                            }
                        }
                        out.push((Message::Notification(Notification { method: method.clone(), params: params.clone() }), String::new()));
                    }
                    Step::Request { method, params, fault, id } => {
                        let rid: RequestId = id.map(|i| (i as i32).into()).unwrap_or_else(|| (request_id_of(idx) as i32).into());
                        step_req.insert(idx, rid.clone());
                        out.push((Message::Request(Request { id: rid, method: method.clone(), params: params.clone() }), fault.clone()));
                    }
                    Step::ResolveOf { parent, pick, fault } => {
                        if let Some(pid) = step_req.get(parent) {
                            if let Some(r) = response_for(&tr.received, pid).first() {
                                if let Message::Response(Response { result: Some(Value::Array(actions)), .. }) = &r.msg {
                                    if !actions.is_empty() {
                                        let mut a = actions[pick % actions.len()].clone();
                                        match fault.as_str() {
                                            "resolve-no-data" => {
                                                a.as_object_mut().map(|o| o.remove("data"));
                                            }
                                            "resolve-no-kind" => {
                                                a.as_object_mut().map(|o| o.remove("kind"));
                                            }
                                            "resolve-unknown-kind" => {
                                                a["kind"] = json!("refactor.does.not.exist");
                                            }
                                            "resolve-huge-data" => {
                                                a["data"] = json!(4_000_000_000u64);
                                            }
                                            "resolve-string-data" => {
                                                a["data"] = json!("seven");
                                            }
                                            _ => {}
                                        }
                                        let rid: RequestId = (request_id_of(idx) as i32).into();
                                        step_req.insert(idx, rid.clone());
                                        out.push((Message::Request(Request { id: rid, method: "codeAction/resolve".into(), params: a }), fault.clone()));
                                    }
                                }
                            }
                        }
                    }
                    Step::ApplyOf { parent } => {
                        if let Some(pid) = step_req.get(parent) {
                            if let Some(r) = response_for(&tr.received, pid).first() {
                                if let Message::Response(Response { result: Some(res), .. }) = &r.msg {
                                    for (u, t) in edits_of(res, &sent_uri(&tr.sent, pid)) {
                                        texts.insert(u.clone(), t.clone());
                                        out.push((
                                            Message::Notification(Notification {
                                                method: "textDocument/didChange".into(),
                                                params: json!({"textDocument": {"uri": u, "version": 1}, "contentChanges": [{"text": t}]}),
                                            }),
                                            String::new(),
                                        ));
                                    }
                                }
                            }
                        }
                    }
                    Step::StrayResponse { id } => {
                        out.push((Message::Response(Response { id: (*id as i32).into(), result: Some(Value::Null), error: None }), "stray-response".into()));
                    }
                    Step::Exit => {
                        // the orderly sequence, sent back to back: shutdown (a request, answered by a worker) and exit
                        let rid: RequestId = (request_id_of(idx) as i32).into();
                        step_req.insert(idx, rid.clone());
                        out.push((Message::Request(Request { id: rid, method: "shutdown".into(), params: Value::Null }), "exit-in-flight".into()));
                        out.push((Message::Notification(Notification { method: "exit".into(), params: Value::Null }), String::new()));
                        tr.exited = true;
                    }
                    Step::Crash => {
                        sys.crash_client();
                        tr.crashed = true;
                        *tr.probes.entry("client-crash".into()).or_default() += 1;
                        if !sys.live_workers().is_empty() {
                            *tr.probes.entry("client-crash-with-workers-alive".into()).or_default() += 1;
                        }
                    }
                }
                for (m, fault) in out {
                    seq += 1;
                    let p = tr.notifications_sent;
                    if is_doc_notification(&m) {
                        tr.notifications_sent += 1;
                    }
                    tr.digest = rng::mix2(tr.digest, rng::fnv(&serde_json::to_string(&m).unwrap_or_default()));
                    sys.send(match &disk_base {
                        Some(d) => rebase(&m, BASE, d),
                        None => m.clone(),
                    });
                    tr.sent.push(Sent { msg: m, step: idx, seq, p, fault });
                }
            }
            Choice::Overlap { t } => {
                tr.racy = true;
                *tr.probes.entry("worker-overlapped-with-loop".into()).or_default() += 1;
                sys.run_overlapped(t);
            }
            Choice::Run { t } => {
                // probes: what is alive when the loop picks up a message
                let before_workers = sys.live_workers();
                let was_idle = t == 0 && matches!(sys.loop_state(), Some(TState::Parked(Point::LoopIdle)));
                sys.run_thread(t);
                if was_idle {
                    let g = sys.ctl.lock();
                    let handled = g.loop_handled;
                    drop(g);
                    if handled > handled_seen {
                        let msg_idx = handled_seen as usize;
                        handled_seen = handled;
                        if let Some(s) = tr.sent.get(msg_idx) {
                            let is_doc = is_doc_notification(&s.msg);
                            let is_exit = matches!(&s.msg, Message::Notification(n) if n.method == "exit");
                            if is_doc {
                                for (_, st) in &before_workers {
                                    let k = match st {
                                        TState::Parked(Point::WorkerStart) => "notification-while-worker-spawned-not-started",
                                        TState::Parked(Point::BeforeSend) => "notification-while-worker-computed-not-sent",
                                        TState::Parked(Point::AfterSend) => "notification-while-worker-responded-not-exited",
                                        _ => "notification-while-worker-other",
                                    };
                                    *tr.probes.entry(k.into()).or_default() += 1;
                                }
                                if before_workers.len() >= 3 {
                                    *tr.probes.entry("notification-with-3+-workers-alive".into()).or_default() += 1;
                                }
                                if !before_workers.is_empty() {
                                    if let Message::Notification(n) = &s.msg {
                                        let u = n.params.pointer("/textDocument/uri").and_then(|v| v.as_str()).unwrap_or("");
                                        let k = u.trim_start_matches(&format!("file://{}/", BASE)).trim_end_matches(".md");
                                        if !program.library.contains_key(k) {
                                            *tr.probes.entry("new-key-notification-overlapped".into()).or_default() += 1;
                                        }
                                    }
                                }
                            }
                            if is_exit && !before_workers.is_empty() {
                                *tr.probes.entry("exit-while-workers-alive".into()).or_default() += 1;
                            }
                        }
                    }
                }
            }
        }
        drain!();
        // abstract state for the coverage measure
        {
            let g = sys.ctl.lock();
            let mut phases: Vec<u64> = g
                .threads
                .iter()
                .filter(|(t, _)| **t != 0)
                .filter_map(|(_, s)| match s {
                    TState::Parked(Point::WorkerStart) => Some(1),
                    TState::Parked(Point::BeforeSend) => Some(2),
                    TState::Parked(Point::AfterSend) => Some(3),
                    _ => None,
                })
                .collect();
            phases.sort();
            let lp = match g.threads.get(&0) {
                Some(TState::Parked(Point::LoopIdle)) => 1u64,
                Some(TState::Exited) => 2,
                _ => 3,
            };
            let mut h = lp;
            for p in &phases {
                h = h * 5 + p;
            }
            drop(g);
            h = rng::mix2(h, (sys.inbox_len().min(3) as u64) * 7 + (tr.notifications_sent as u64 % 4));
            tr.states.insert(h);
            if phases.len() >= 3 {
                *tr.probes.entry("3+-workers-alive".into()).or_default() += 1;
            }
        }
    }

    // ---- quiescent (or nothing enabled). Final probes for C11, then orderly exit.
    if !crate::entropy::wait_wild_threads(2000) {
        *tr.probes.entry("unscheduled-thread-still-alive-at-quiescence".into()).or_default() += 1;
    }
    if !tr.crashed && !tr.exited && program.final_probe && sys.blocked.is_empty() {
        let mut n = 0;
        tr.final_texts = texts.clone();
        let battery: Vec<(String, Value)> = if program.final_battery { final_battery(&texts) } else { final_battery(&texts).into_iter().filter(|(m, _)| m == "textDocument/formatting").collect() };
        // the final phase has its own step allowance (it grows with the library, not with the program)
        let final_budget = steps + battery.len() * 8 + 200;
        for (method, params) in battery {
            n += 1;
            let rid: RequestId = (900_000 + n as i32).into();
            let m = Message::Request(Request { id: rid, method, params });
            seq += 1;
            sys.send(match &disk_base {
                Some(d) => rebase(&m, BASE, d),
                None => m.clone(),
            });
            tr.sent.push(Sent { msg: m, step: usize::MAX, seq, p: tr.notifications_sent, fault: String::new() });
            let mut seqm = Mode::Sequential;
            loop {
                let v = sys.view(false);
                match seqm.choose(&v)? {
                    Some(Choice::Run { t }) => {
                        sys.run_thread(t);
                    }
                    _ => break,
                }
                steps += 1;
                if steps > final_budget {
                    let _ = sys.finish();
                    return Err(SchedError::Budget(tr.choices.clone()));
                }
            }
            drain!();
        }
    }
    if !tr.crashed && !tr.exited {
        // orderly end: shutdown is answered, then exit
        seq += 1;
        let m = Message::Request(Request { id: 999_999.into(), method: "shutdown".into(), params: Value::Null });
        sys.send(m.clone());
        tr.sent.push(Sent { msg: m, step: usize::MAX - 1, seq, p: tr.notifications_sent, fault: "final-shutdown".into() });
        let mut seqm = Mode::Sequential;
        loop {
            let v = sys.view(false);
            match seqm.choose(&v)? {
                Some(Choice::Run { t }) => {
                    sys.run_thread(t);
                }
                _ => break,
            }
            steps += 1;
            if steps > budget * 4 {
                let _ = sys.finish();
                return Err(SchedError::Budget(tr.choices.clone()));
            }
        }
        drain!();
        seq += 1;
        let m = Message::Notification(Notification { method: "exit".into(), params: Value::Null });
        sys.send(m.clone());
        tr.sent.push(Sent { msg: m, step: usize::MAX, seq, p: tr.notifications_sent, fault: String::new() });
        tr.exited = true;
    }
    let fin = sys.finish();
    drain!();
    crate::entropy::wait_wild_threads(500);
    if let Some(d) = &disk_dir {
        let _ = std::fs::remove_dir_all(d);
    }
    match fin {
        Ok(r) => tr.loop_result = Some(r),
        Err(e) => tr.loop_result = Some(Err(format!("HANG: {}", e))),
    }
    {
        let g = sys.ctl.lock();
        tr.loop_panics = g.loop_panics.clone();
        tr.worker_panics = crate::sched::take_worker_panics();
        tr.worker_msg = g.worker_msg.clone();
        tr.events = g.events.iter().map(|(t, p)| (*t, format!("{:?}", p))).collect();
        for (t, p) in &g.events {
            tr.digest = rng::mix2(tr.digest, *t * 16 + *p as u64);
        }
    }
    tr.blocked = sys.blocked.clone();
    let wild = crate::entropy::wild_total();
    if wild > 0 {
        *tr.probes.entry("unscheduled-threads-created".into()).or_default() += wild as u64;
    }
    tr.steps = steps as u64;
    Ok(tr)
}

/// The requests sent for every note once the system is idle: formatting first (the version-token oracle reads
/// it), then the position- and structure-dependent ones, so that the idle state can be compared with a freshly
/// started server on the same texts.
pub fn final_battery(texts: &BTreeMap<String, String>) -> Vec<(String, Value)> {
    let mut v = vec![];
    // formatting of every note (the token oracle), the rest of the battery for at most 12 of them
    let few: BTreeMap<&String, &String> = texts.iter().take(12).collect();
    for (u, _text) in texts {
        v.push(("textDocument/formatting".to_string(), json!({"textDocument": {"uri": u}, "options": {"tabSize": 2, "insertSpaces": true}})));
    }
    for (u, text) in few {
        for m in ["textDocument/references", "textDocument/inlayHint", "textDocument/documentSymbol"] {
            v.push((m.to_string(), req_params(m, u, 0, 0)));
        }
        let links: Vec<(usize, usize)> = text.lines().enumerate().filter_map(|(i, l)| l.find("](").map(|c| (i, c + 2)).or(l.find("[[").map(|c| (i, c + 2)))).take(2).collect();
        for (l, c) in links {
            v.push(("textDocument/definition".to_string(), req_params("textDocument/definition", u, l as u32, c as u32)));
            v.push(("textDocument/prepareRename".to_string(), req_params("textDocument/prepareRename", u, l as u32, c as u32)));
        }
        let nlines = text.lines().count().max(1);
        for l in [0, nlines / 2, nlines - 1] {
            v.push(("textDocument/codeAction".to_string(), json!({"textDocument": {"uri": u}, "range": {"start": {"line": l, "character": 0}, "end": {"line": l, "character": 0}}, "context": {"diagnostics": []}})));
        }
    }
    v.push(("workspace/symbol".to_string(), json!({"query": ""})));
    v
}

fn sent_uri(sent: &[Sent], id: &RequestId) -> String {
    sent.iter()
        .find_map(|s| match &s.msg {
            Message::Request(r) if &r.id == id => r.params.pointer("/textDocument/uri").and_then(|v| v.as_str()).map(|s| s.to_string()),
            _ => None,
        })
        .unwrap_or_default()
}

/// (uri, full new text) pairs contained in a formatting result (TextEdit[]) or a resolved code action
fn edits_of(res: &Value, request_uri: &str) -> Vec<(String, String)> {
    let mut out = vec![];
    if let Value::Array(edits) = res {
        for e in edits {
            if let Some(t) = e.get("newText").and_then(|v| v.as_str()) {
                if !request_uri.is_empty() {
                    out.push((request_uri.to_string(), t.to_string()));
                }
            }
        }
    }
    if let Some(Value::Array(ops)) = res.pointer("/edit/documentChanges") {
        for op in ops {
            if let (Some(u), Some(Value::Array(es))) = (op.pointer("/textDocument/uri").and_then(|v| v.as_str()), op.get("edits")) {
                for e in es {
                    if let Some(t) = e.get("newText").and_then(|v| v.as_str()) {
                        out.push((u.to_string(), t.to_string()));
                    }
                }
            }
        }
    }
    out
}

/// messages from the server, with the random ids of server->client requests normalised
fn canonical_incoming(m: &Message) -> Value {
    match m {
        Message::Request(r) => json!({"server_request": r.method, "params": r.params}),
        other => serde_json::to_value(other).unwrap_or(Value::Null),
    }
}

/// canonical form of an answer (set-valued results sorted)
pub fn canonical_answer(method: &str, r: Option<&Response>) -> String {
    match r {
        None => "<no response>".into(),
        Some(resp) => {
            if let Some(e) = &resp.error {
                return format!("error({}): {}", e.code, normalise_panic(&e.message));
            }
            let mut v = resp.result.clone().unwrap_or(Value::Null);
            if method == "codeAction/resolve" || method == "textDocument/completion" || method == "workspace/executeCommand" {
                // fresh-note names are random 8-character draws in production mode
                mask_value(&mut v);
            }
            match method {
                "textDocument/references" => {
                    if let Value::Array(a) = &mut v {
                        a.sort_by_key(|x| x.to_string());
                    }
                }
                "textDocument/completion" => {
                    if let Some(Value::Array(a)) = v.get_mut("items") {
                        a.sort_by_key(|x| x.to_string());
                    }
                }
                _ => {}
            }
            v.to_string()
        }
    }
}

/// mask random fresh-note names in every string of a JSON value (on the parsed value: masking the serialised
/// text would also hit escape sequences such as `\n42graph`)
pub fn mask_value(v: &mut Value) {
    match v {
        Value::String(s) => *s = mask_random_names(s),
        Value::Array(a) => a.iter_mut().for_each(mask_value),
        Value::Object(o) => o.values_mut().for_each(mask_value),
        _ => {}
    }
}

/// replace every maximal run of exactly eight [a-z0-9] characters by a placeholder
pub fn mask_random_names(text: &str) -> String {
    let chars: Vec<char> = text.chars().collect();
    let mut out = String::with_capacity(text.len());
    let mut i = 0;
    while i < chars.len() {
        if chars[i].is_ascii_lowercase() || chars[i].is_ascii_digit() {
            let mut j = i;
            while j < chars.len() && (chars[j].is_ascii_lowercase() || chars[j].is_ascii_digit()) {
                j += 1;
            }
            let prev_alnum = i > 0 && chars[i - 1].is_alphanumeric();
            let next_alnum = j < chars.len() && chars[j].is_alphanumeric();
            if j - i == 8 && !prev_alnum && !next_alnum {
                out.push_str("RNDNAME8");
            } else {
                out.extend(&chars[i..j]);
            }
            i = j;
        } else {
            out.push(chars[i]);
            i += 1;
        }
    }
    out
}

// ------------------------------------------------------------------------------------------------
// oracles

#[derive(Clone, Debug, Serialize, Deserialize, PartialEq)]
pub struct Violation {
    pub property: String,
    pub kind: String,
    pub signature: String,
    pub detail: String,
}

fn method_of(m: &Message) -> String {
    match m {
        Message::Request(r) => r.method.clone(),
        Message::Notification(n) => n.method.clone(),
        Message::Response(_) => "response".into(),
    }
}

/// Build and run the sequential reference for `tr`: every request evaluated at every notification prefix
/// of its window. Returns map (sent index, q) -> canonical answer.
pub fn reference_answers(program: &Program, tr: &Trace) -> Result<BTreeMap<(usize, usize), String>, SchedError> {
    let n_total = tr.notifications_sent;
    // windows
    let mut windows: Vec<(usize, usize, usize)> = vec![]; // (sent idx, p, p')
    for (i, s) in tr.sent.iter().enumerate() {
        if let Message::Request(r) = &s.msg {
            let pp = response_for(&tr.received, &r.id).first().map(|x| x.p).unwrap_or(n_total);
            windows.push((i, s.p, pp.max(s.p)));
        }
    }
    let mut steps: Vec<Step> = vec![];
    let mut ref_ids: Vec<(i64, usize, usize)> = vec![]; // (id, sent idx, q)
    let mut next_id: i64 = 2_000_000;
    let docs: Vec<&Sent> = tr.sent.iter().filter(|s| is_doc_notification(&s.msg)).collect();
    for q in 0..=n_total {
        for (i, p, pp) in &windows {
            if *p <= q && q <= *pp {
                if let Message::Request(r) = &tr.sent[*i].msg {
                    next_id += 1;
                    ref_ids.push((next_id, *i, q));
                    steps.push(Step::Request { method: r.method.clone(), params: r.params.clone(), fault: String::new(), id: Some(next_id) });
                }
            }
        }
        if q < n_total {
            if let Message::Notification(n) = &docs[q].msg {
                steps.push(Step::Notify { method: n.method.clone(), params: n.params.clone(), class: String::new() });
            }
        }
    }
    let refprog = Program { steps, final_probe: false, ..program.clone() };
    let rt = execute(&refprog, &mut Mode::Sequential, 8)?;
    let mut out = BTreeMap::new();
    for (id, i, q) in ref_ids {
        let rid: RequestId = (id as i32).into();
        let method = method_of(&tr.sent[i].msg);
        let resp = response_for(&rt.received, &rid);
        let r = resp.first().and_then(|x| if let Message::Response(r) = &x.msg { Some(r) } else { None });
        out.insert((i, q), canonical_answer(&method, r));
    }
    Ok(out)
}

/// answers of a server freshly started on `tr.final_texts` to the final battery, or None if the comparison does
/// not apply to this run (client crashed / exited early, library on disk, names an editor would percent-encode)
pub fn fresh_answers(program: &Program, tr: &Trace) -> Result<Option<Vec<(String, Value, String)>>, SchedError> {
    if tr.final_texts.is_empty() || tr.crashed || program.disk || !program.final_battery {
        return Ok(None);
    }
    let prefix = format!("file://{}/", BASE);
    let mut library = BTreeMap::new();
    for (u, t) in &tr.final_texts {
        if u.contains('%') || !u.starts_with(&prefix) || !u.ends_with(".md") {
            return Ok(None);
        }
        library.insert(u[prefix.len()..u.len() - 3].to_string(), t.clone());
    }
    let battery = final_battery(&tr.final_texts);
    let steps: Vec<Step> = battery.iter().enumerate().map(|(i, (m, p))| Step::Request { method: m.clone(), params: p.clone(), fault: String::new(), id: Some(3_000_000 + i as i64) }).collect();
    let fresh = Program { library, steps, final_probe: false, disk: false, final_battery: false, ..program.clone() };
    let ft = execute(&fresh, &mut Mode::Sequential, 8)?;
    let mut out = vec![];
    for (i, (m, p)) in battery.iter().enumerate() {
        let rid: RequestId = ((3_000_000 + i) as i32).into();
        let resp = response_for(&ft.received, &rid);
        let r = resp.first().and_then(|x| if let Message::Response(r) = &x.msg { Some(r) } else { None });
        out.push((m.clone(), p.clone(), strip_node_ids(&canonical_answer(m, r))));
    }
    Ok(Some(out))
}

/// code-action `data` is an arena node id, which legitimately differs between a long-lived and a fresh server
pub fn strip_node_ids(answer: &str) -> String {
    match serde_json::from_str::<Value>(answer) {
        Ok(Value::Array(mut a)) => {
            for x in a.iter_mut() {
                if let Some(o) = x.as_object_mut() {
                    o.remove("data");
                }
            }
            Value::Array(a).to_string()
        }
        _ => answer.to_string(),
    }
}

/// C11, third oracle: once idle, the live server answers the final battery exactly like a server freshly
/// started on the last texts sent
pub fn check_against_fresh(tr: &Trace, fresh: &[(String, Value, String)]) -> Vec<Violation> {
    let mut v = vec![];
    let finals: Vec<&Sent> = tr.sent.iter().filter(|s| s.step == usize::MAX && matches!(&s.msg, Message::Request(_))).collect();
    for (s, (m, p, want)) in finals.iter().zip(fresh.iter()) {
        if let Message::Request(r) = &s.msg {
            if &r.method != m || &r.params != p {
                continue; // batteries out of step: no verdict
            }
            let resps = response_for(&tr.received, &r.id);
            let got = strip_node_ids(&canonical_answer(m, resps.first().and_then(|x| if let Message::Response(r) = &x.msg { Some(r) } else { None })));
            if &got != want {
                v.push(Violation {
                    property: "C11".into(),
                    kind: "idle_state_differs_from_fresh_start".into(),
                    signature: format!("idle_state_differs_from_fresh_start/{}", m),
                    detail: format!("once idle, {} {} answers {} ; a server freshly started on the last texts sent answers {}", m, p.pointer("/textDocument/uri").and_then(|u| u.as_str()).unwrap_or(""), clip(&got), clip(want)),
                });
                break;
            }
        }
    }
    v
}

pub fn check_oracles(program: &Program, tr: &Trace, reference: &BTreeMap<(usize, usize), String>) -> Vec<Violation> {
    let mut v: Vec<Violation> = vec![];
    // ---- C11 (1): a notification whose handling panicked on the loop is a lost edit
    for (idx, text) in &tr.loop_panics {
        if let Some(s) = tr.sent.get(*idx as usize) {
            if is_doc_notification(&s.msg) {
                let np = normalise_panic(text);
                let arc = np.contains("Option::unwrap()") || np.contains("get_mut");
                v.push(Violation {
                    property: "C11".into(),
                    kind: "lost_notification".into(),
                    signature: format!("lost_notification/{}/{}", method_of(&s.msg), if arc { "exclusive-access-failed" } else { "handler-panicked" }),
                    detail: format!("message #{} ({}) was dropped by the loop: {}", idx, method_of(&s.msg), np),
                });
                break;
            }
        }
    }
    // ---- window oracle
    let n_total = tr.notifications_sent;
    for (i, s) in tr.sent.iter().enumerate() {
        let r = match &s.msg {
            Message::Request(r) => r,
            _ => continue,
        };
        let resps = response_for(&tr.received, &r.id);
        let same_id_requests = tr.sent.iter().filter(|x| matches!(&x.msg, Message::Request(y) if y.id == r.id)).count();
        // C12: exactly one response per request (with a duplicated id: as many responses as requests)
        let first_of_id = tr.sent.iter().position(|x| matches!(&x.msg, Message::Request(y) if y.id == r.id)) == Some(i);
        let obligation = !tr.crashed || resps.len() > same_id_requests;
        if first_of_id && obligation && resps.len() != same_id_requests {
            let kind = if resps.len() < same_id_requests { "no_response" } else { "duplicate_response" };
            // panic text of the worker that served it, if any
            let worker = tr.worker_msg.iter().find(|(_, m)| **m == i as u64).map(|(t, _)| *t);
            let ptxt = worker.and_then(|t| tr.worker_panics.iter().find(|(w, _)| *w == t)).map(|(_, m)| normalise_panic(m)).unwrap_or_default();
            v.push(Violation {
                property: "C12".into(),
                kind: kind.into(),
                signature: format!("{}/{}/{}/{}", kind, r.method, s.fault, ptxt),
                detail: format!("request id {} ({}) got {} responses for {} requests; fault='{}' worker panic='{}'", r.id, r.method, resps.len(), same_id_requests, s.fault, ptxt),
            });
        }
        if same_id_requests > 1 {
            continue; // answers of a duplicated id cannot be attributed
        }
        let got = canonical_answer(&r.method, resps.first().and_then(|x| if let Message::Response(r) = &x.msg { Some(r) } else { None }));
        if tr.crashed && resps.is_empty() {
            continue; // a crashed client has no claim on answers
        }
        let pp = resps.first().map(|x| x.p).unwrap_or(n_total).max(s.p);
        let mut ok = false;
        let mut stale = false;
        for q in s.p..=pp {
            if reference.get(&(i, q)) == Some(&got) {
                ok = true;
                break;
            }
        }
        if !ok {
            // was it an older state?
            // (older states are not in the reference map; detect via the final-probe special case below)
            let is_final = s.step == usize::MAX;
            let exp = reference.get(&(i, s.p)).cloned().unwrap_or_default();
            if is_final {
                v.push(Violation {
                    property: "C11".into(),
                    kind: "final_state_mismatch".into(),
                    signature: format!("final_state_mismatch/{}", r.method),
                    detail: format!("after quiescence {} answered {} ; reference (all {} notifications applied in order) answers {}", sent_uri(&tr.sent, &r.id), clip(&got), n_total, clip(&exp)),
                });
            } else {
                if got == "<no response>" {
                    stale = false;
                }
                let kind = if stale { "stale_answer" } else { "wrong_answer" };
                // C11 when no fault was injected on this request; C12 when it is a liveness probe or faulty request
                let prop = if s.fault.is_empty() { "C11" } else { "C12" };
                v.push(Violation {
                    property: prop.into(),
                    kind: kind.into(),
                    signature: format!("{}/{}/{}", kind, r.method, s.fault),
                    detail: format!("request #{} {} sent after {} notifications, answered by {}: got {} ; reference at {}..={}: {}", i, r.method, s.p, pp, clip(&got), s.p, pp, clip(&exp)),
                });
            }
        }
    }
    // ---- C11, independent of the reference: the unique version tokens. A formatting answer for note X must
    // show the text of the latest edit of X sent before the request (or of a later one sent before the answer
    // arrived). The reference runs the same code, so a defect that loses or misroutes an edit under *every*
    // schedule is invisible to the window oracle above; this one sees it.
    {
        fn token_of(text: &str) -> Option<String> {
            let i = text.rfind("ver v")?;
            let digits: String = text[i + 5..].chars().take_while(|c| c.is_ascii_digit()).collect();
            if digits.is_empty() {
                None
            } else {
                Some(format!("ver v{}", digits))
            }
        }
        fn edit_of(m: &Message) -> Option<(String, Option<String>)> {
            if let Message::Notification(n) = m {
                let uri = n.params.pointer("/textDocument/uri").and_then(|v| v.as_str())?.to_string();
                let text = n.params.pointer("/contentChanges/0/text").or(n.params.get("text")).and_then(|v| v.as_str())?;
                return Some((uri, token_of(text)));
            }
            None
        }
        for (i, s) in tr.sent.iter().enumerate() {
            let r = match &s.msg {
                Message::Request(r) if r.method == "textDocument/formatting" && (s.fault.is_empty() || s.fault.starts_with("probe-after")) => r,
                _ => continue,
            };
            if tr.sent.iter().filter(|x| matches!(&x.msg, Message::Request(y) if y.id == r.id)).count() != 1 {
                continue;
            }
            let uri = match r.params.pointer("/textDocument/uri").and_then(|v| v.as_str()) {
                Some(u) => u.to_string(),
                None => continue,
            };
            let resps = response_for(&tr.received, &r.id);
            if tr.crashed && resps.is_empty() {
                continue;
            }
            let pp = resps.first().map(|x| x.p).unwrap_or(n_total);
            // edits of this note, in send order
            let edits: Vec<(&Sent, Option<String>)> = tr.sent.iter().filter(|x| is_doc_notification(&x.msg)).filter_map(|x| edit_of(&x.msg).filter(|(u, _)| *u == uri).map(|(_, t)| (x, t))).collect();
            let latest_before = match edits.iter().filter(|(x, _)| x.seq < s.seq).last() {
                Some(e) => e,
                None => continue,
            };
            let acceptable: Vec<&(&Sent, Option<String>)> = edits.iter().filter(|(x, _)| x.seq >= latest_before.0.seq && (x.seq < s.seq || x.p < pp)).collect();
            if acceptable.iter().any(|(_, t)| t.is_none()) {
                continue; // an edit without a token (e.g. a refactoring moved it to another note): cannot judge
            }
            let answer = resps.first().and_then(|x| if let Message::Response(Response { result: Some(Value::Array(a)), .. }) = &x.msg { a.first().and_then(|e| e.get("newText")).and_then(|t| t.as_str()).map(|t| t.to_string()) } else { None });
            let ok = match &answer {
                Some(text) => acceptable.iter().any(|(_, t)| text.contains(t.as_ref().unwrap().as_str())),
                None => false,
            };
            if !ok {
                let want: Vec<String> = acceptable.iter().map(|(_, t)| t.clone().unwrap()).collect();
                v.push(Violation {
                    property: "C11".into(),
                    kind: "edit_not_visible".into(),
                    signature: format!("edit_not_visible/{}", if s.step == usize::MAX { "at-quiescence" } else { "request-after-edit" }),
                    detail: format!("formatting of {} (message #{}) was sent after the edit carrying '{}' but the answer shows {} (acceptable: {:?})", uri, i, want.first().cloned().unwrap_or_default(), answer.as_ref().map(|t| format!("a text with {:?}", token_of(t))).unwrap_or_else(|| "no text at all".into()), want),
                });
                break;
            }
        }
    }
    // ---- C12: a response carries a result or an error, not neither and not both
    for r in &tr.received {
        if let Message::Response(resp) = &r.msg {
            if resp.result.is_some() == resp.error.is_some() {
                let method = tr.sent.iter().find_map(|s| if let Message::Request(q) = &s.msg { if q.id == resp.id { Some(q.method.clone()) } else { None } } else { None }).unwrap_or_default();
                v.push(Violation { property: "C12".into(), kind: "malformed_response".into(), signature: format!("malformed_response/{}", method), detail: format!("the response to request {} ({}) has {} result and error", resp.id, method, if resp.result.is_some() { "both" } else { "neither" }) });
                break;
            }
        }
    }
    // ---- C12: no response with an id the client never used
    let used: BTreeSet<String> = tr.sent.iter().filter_map(|s| if let Message::Request(r) = &s.msg { Some(r.id.to_string()) } else { None }).collect();
    for r in &tr.received {
        if let Message::Response(resp) = &r.msg {
            if !used.contains(&resp.id.to_string()) {
                v.push(Violation { property: "C12".into(), kind: "unknown_id".into(), signature: "unknown_id".into(), detail: format!("response with id {} which the client never used", resp.id) });
                break;
            }
        }
    }
    // ---- C12: exit ends the loop cleanly; a crash ends it (with an error) too
    match &tr.loop_result {
        Some(Ok(())) => {
            if tr.crashed {
                // dropping the connection makes main_loop return an error; Ok is fine as well
            }
        }
        Some(Err(e)) => {
            if e.starts_with("HANG") {
                v.push(Violation { property: "C12".into(), kind: "exit_hang".into(), signature: format!("exit_hang/{}", if tr.crashed { "crash" } else { "exit" }), detail: e.clone() });
            } else if !tr.crashed {
                v.push(Violation { property: "C12".into(), kind: "exit_error".into(), signature: "exit_error".into(), detail: format!("main_loop returned an error after exit: {}", e) });
            }
        }
        None => {}
    }
    if !tr.blocked.is_empty() {
        v.push(Violation { property: "C12".into(), kind: "deadlock".into(), signature: "deadlock".into(), detail: format!("threads {:?} neither parked nor exited within the watchdog", tr.blocked) });
    }
    let _ = program;
    v
}

fn clip(s: &str) -> String {
    s.chars().take(300).collect()
}

// ------------------------------------------------------------------------------------------------
// program generation

pub struct GenOut {
    pub program: Program,
    pub policy_name: &'static str,
    pub policy: Policy,
}

pub const FAULTS: &[&str] = &[
    "uri-outside-root",
    "uri-unknown-note",
    "position-beyond-last-line",
    "position-beyond-line-end",
    "dangling-block-ref-inline",
    "ref-above-first-heading-inline",
    "self-reference-inline",
    "stale-action-after-change",
    "stale-action-after-empty",
    "resolve-no-data",
    "resolve-no-kind",
    "resolve-unknown-kind",
    "resolve-huge-data",
    "resolve-string-data",
    "unknown-method",
    "wrong-shape",
    "command-unknown",
    "command-missing-args",
    "command-missing-keys",
    "command-valid",
    "duplicate-id",
    "cancel-request",
    "stray-response",
    "shutdown-then-more",
    "exit-in-flight",
    "client-crash",
    "rename-to-existing",
    "rename-dangling",
];

fn text_doc(key: &str) -> Value {
    json!({"uri": uri_str(key)})
}

fn link_pos(text: &str, rng: &mut Rng) -> (u32, u32) {
    let cands: Vec<(usize, usize)> = text.lines().enumerate().filter_map(|(i, l)| l.find("](").map(|c| (i, c + 2)).or(l.find("[[").map(|c| (i, c + 2)))).collect();
    if cands.is_empty() {
        let n = text.lines().count().max(1);
        (rng.below(n) as u32, rng.below(6) as u32)
    } else {
        let (l, c) = *rng.pick(&cands);
        (l as u32, (c + rng.below(2)) as u32)
    }
}

/// is this run a long session on one big note? (own stream: all other programs stay what they were)
pub fn is_heavy(seed: u64, thorough: bool, faults: bool) -> bool {
    !faults && !Rng::stream(seed, "swarm").chance(1, 100) && Rng::stream(seed, "heavy-session").chance(1, if thorough { 600 } else { 3000 })
}

pub fn generate(seed: u64, thorough: bool, faults: bool) -> GenOut {
    let mut swarm = Rng::stream(seed, "swarm");
    let mut work = Rng::stream(seed, "workload");
    let (max_notes, min_msgs, max_msgs) = if thorough { (8, 6, 30) } else { (5, 4, 14) };
    let big_library = swarm.chance(1, 100);
    let n_notes = if big_library { swarm.range(40, 120) } else { swarm.range(1, max_notes) };
    let n_notes = if is_heavy(seed, thorough, faults) { n_notes.max(2) } else { n_notes };
    let with_dirs = swarm.chance(1, 4);
    let refs_ext = if swarm.chance(1, 5) { ".md" } else { "" }.to_string();
    // a long session on one big note (C11 only): hundreds of edits of a note of several hundred blocks, a few
    // requests in between - thresholds in the arena, recursion guards and size limits are then crossed *through
    // the router*, with workers alive. Drawn from its own stream so that all other programs stay what they were.
    let heavy = !big_library && is_heavy(seed, thorough, faults);
    let n_msgs = if heavy { swarm.range(300, 360) } else { swarm.range(min_msgs, max_msgs) };
    let client_name = if swarm.chance(1, 5) { "helix" } else { "" }.to_string();
    let config = match swarm.below(12) {
        0..=2 => "models",
        3 => "models-unreachable",
        _ => "plain",
    }
    .to_string();
    let (policy_name, policy) = *swarm.pick(POLICIES);
    let change_w = *swarm.pick(&[15u32, 30, 50]);
    let change_w = if heavy { 700 } else { change_w };
    // swarm: which fault kinds are enabled in this run
    let enabled_faults: Vec<&str> = if faults { FAULTS.iter().filter(|_| swarm.chance(1, 3)).cloned().collect() } else { vec![] };
    let fault_pct = if enabled_faults.is_empty() { 0 } else { *swarm.pick(&[15u32, 30, 50]) };

    // (a long session always ends with the idle-equals-fresh battery, which needs plain names and no disk)
    let key_flavour = if swarm.chance(1, 3) && !heavy { if Rng::stream(seed, "per-cent-names").chance(1, 3) { 2 } else { 1 } } else { 0 };
    let disk = swarm.chance(1, 8) && !heavy;
    let big_doc_bytes = if swarm.chance(1, 25) { *swarm.pick(&[9_000usize, 70_000, 140_000]) } else { 0 };
    let version_mode = swarm.below(3); // 0: constant 1, 1: increasing, 2: increasing with restarts after close/open
    let all_keys = gen::rich_key_pool(n_notes + 2, with_dirs, key_flavour, &mut work);
    let lib_keys: Vec<String> = all_keys[..n_notes].to_vec();
    let mut targets = all_keys.clone();
    targets.push("zz".to_string());
    if key_flavour != 0 {
        targets.push("readme".to_string());
    }
    let cfg = GenCfg { keys: lib_keys.clone(), targets, max_blocks: if big_library { 2 } else { swarm.range(2, 6) }, max_depth: 2 };
    let mut versions: BTreeMap<String, i64> = BTreeMap::new();
    let mut big_used = false;
    let mut docs: BTreeMap<String, Doc> = BTreeMap::new();
    let mut texts: BTreeMap<String, String> = BTreeMap::new();
    for k in &lib_keys {
        let d = Gen { rng: &mut work, cfg: &cfg }.doc();
        texts.insert(k.clone(), gen::render(k, &d));
        docs.insert(k.clone(), d);
    }
    if config.starts_with("models") && work.chance(1, 2) {
        // a prompt note so that '+' completions and the generate command have something to work on
        let d = Doc { front: None, blocks: vec![gen::Block::Heading { level: 1, inl: vec![gen::Inline::Word("prompt".into())], setext: false }], trailing_newline: true, bom: false };
        texts.insert("prompt-a".into(), gen::render("prompt-a", &d));
        docs.insert("prompt-a".into(), d);
    }
    if heavy {
        if let Some(k) = lib_keys.first() {
            let mut blocks = vec![gen::Block::Heading { level: 1, inl: vec![gen::Inline::Word("big".into())], setext: false }];
            let mut g = Gen { rng: &mut work, cfg: &cfg };
            blocks.push(g.table());
            for i in 0..g.rng.range(230, 400) {
                blocks.push(if i % 17 == 5 { g.block_ref() } else { gen::Block::Para(vec![g.inlines(20)]) });
            }
            // links behind everything else: they are indexed only if indexing reaches the end of a long note
            blocks.push(gen::Block::Para(vec![vec![gen::Inline::Word("see".into()), gen::Inline::Link { text: "tail".into(), key: lib_keys[1].clone(), ext: false }]]));
            blocks.push(gen::Block::BlockRef { text: "tail".into(), key: lib_keys[1].clone(), ext: false });
            let d = Doc { front: None, blocks, trailing_newline: true, bom: false };
            texts.insert(k.clone(), gen::render(k, &d));
            docs.insert(k.clone(), d);
        }
    }
    let library = texts.clone();
    let mut steps: Vec<Step> = vec![];
    let mut version = 0;
    let mut ended = false;
    while steps.len() < n_msgs && !ended {
        let keys: Vec<String> = docs.keys().cloned().collect();
        let key = if heavy && work.chance(4, 5) { lib_keys[0].clone() } else { work.pick(&keys).clone() };
        let text = texts[&key].clone();
        // fault?
        if fault_pct > 0 && work.chance(fault_pct, 100) {
            let f = *work.pick(&enabled_faults);
            let probe_key = work.pick(&keys).clone();
            let before = steps.len();
            match f {
                "uri-outside-root" => {
                    let m = *work.pick(&["textDocument/formatting", "textDocument/inlayHint", "textDocument/references", "textDocument/documentSymbol", "textDocument/codeAction", "textDocument/definition", "textDocument/completion"]);
                    steps.push(Step::Request { method: m.into(), params: req_params(m, "file:///elsewhere/x.md", 0, 0), fault: f.into(), id: None });
                }
                "uri-unknown-note" => {
                    let m = *work.pick(&["textDocument/formatting", "textDocument/inlayHint", "textDocument/references", "textDocument/documentSymbol", "textDocument/codeAction", "textDocument/definition", "textDocument/prepareRename", "textDocument/rename", "textDocument/completion"]);
                    steps.push(Step::Request { method: m.into(), params: req_params(m, &uri_str("no-such-note"), 0, 0), fault: f.into(), id: None });
                }
                "position-beyond-last-line" => {
                    let m = *work.pick(&["textDocument/codeAction", "textDocument/definition", "textDocument/prepareRename", "textDocument/rename", "textDocument/completion"]);
                    steps.push(Step::Request { method: m.into(), params: req_params(m, &uri_str(&key), 100_000, 0), fault: f.into(), id: None });
                }
                "position-beyond-line-end" => {
                    let m = *work.pick(&["textDocument/codeAction", "textDocument/definition", "textDocument/prepareRename", "textDocument/rename"]);
                    let l = work.below(text.lines().count().max(1)) as u32;
                    steps.push(Step::Request { method: m.into(), params: req_params(m, &uri_str(&key), l, 100_000), fault: f.into(), id: None });
                }
                "dangling-block-ref-inline" | "ref-above-first-heading-inline" | "self-reference-inline" => {
                    version += 1;
                    let target = match f {
                        "dangling-block-ref-inline" => "zz".to_string(),
                        "self-reference-inline" => key.clone(),
                        _ => work.pick(&keys).clone(),
                    };
                    let body = if f == "ref-above-first-heading-inline" {
                        format!("[x]({})\n\n# title v{}\n\ntext\n", gen::rel_url(&key, &target), version)
                    } else {
                        format!("# title v{}\n\n[x]({})\n\ntext\n", version, gen::rel_url(&key, &target))
                    };
                    let line = if f == "ref-above-first-heading-inline" { 0 } else { 2 };
                    steps.push(Step::Notify { method: "textDocument/didChange".into(), params: json!({"textDocument": {"uri": uri_str(&key), "version": 1}, "contentChanges": [{"text": body}]}), class: f.into() });
                    texts.insert(key.clone(), body.clone());
                    docs.insert(key.clone(), Doc::default());
                    let ca = steps.len();
                    steps.push(Step::Request { method: "textDocument/codeAction".into(), params: req_params("textDocument/codeAction", &uri_str(&key), line, 0), fault: String::new(), id: None });
                    steps.push(Step::ResolveOf { parent: ca, pick: work.below(4), fault: f.into() });
                }
                "stale-action-after-change" | "stale-action-after-empty" => {
                    let ca = steps.len();
                    let l = work.below(text.lines().count().max(1)) as u32;
                    steps.push(Step::Request { method: "textDocument/codeAction".into(), params: req_params("textDocument/codeAction", &uri_str(&key), l, 0), fault: String::new(), id: None });
                    version += 1;
                    let body = if f == "stale-action-after-empty" { String::new() } else { format!("# short v{}\n", version) };
                    steps.push(Step::Notify { method: "textDocument/didChange".into(), params: json!({"textDocument": {"uri": uri_str(&key), "version": 1}, "contentChanges": [{"text": body}]}), class: f.into() });
                    texts.insert(key.clone(), body);
                    docs.insert(key.clone(), Doc::default());
                    steps.push(Step::ResolveOf { parent: ca, pick: work.below(4), fault: f.into() });
                }
                "resolve-no-data" | "resolve-no-kind" | "resolve-unknown-kind" | "resolve-huge-data" | "resolve-string-data" => {
                    let ca = steps.len();
                    let l = work.below(text.lines().count().max(1)) as u32;
                    steps.push(Step::Request { method: "textDocument/codeAction".into(), params: req_params("textDocument/codeAction", &uri_str(&key), l, 0), fault: String::new(), id: None });
                    steps.push(Step::ResolveOf { parent: ca, pick: work.below(4), fault: f.into() });
                    if work.chance(1, 2) {
                        // a resolve built by hand, independent of what the server offered
                        let mut a = json!({"title": "x", "kind": "refactor.extract.section", "data": 1});
                        match f {
                            "resolve-no-data" => {
                                a.as_object_mut().unwrap().remove("data");
                            }
                            "resolve-no-kind" => {
                                a.as_object_mut().unwrap().remove("kind");
                            }
                            "resolve-unknown-kind" => a["kind"] = json!("nope"),
                            "resolve-huge-data" => a["data"] = json!(4_000_000_000u64),
                            _ => a["data"] = json!("seven"),
                        }
                        steps.push(Step::Request { method: "codeAction/resolve".into(), params: a, fault: f.into(), id: None });
                    }
                }
                "unknown-method" => {
                    let m = *work.pick(&["textDocument/hover", "textDocument/foldingRange", "workspace/didChangeConfiguration", "$/unknown", "textDocument/inlineValues"]);
                    steps.push(Step::Request { method: m.into(), params: json!({"textDocument": text_doc(&key), "position": {"line": 0, "character": 0}, "range": {"start": {"line": 0, "character": 0}, "end": {"line": 0, "character": 0}}, "context": {"frameId": 0, "stoppedLocation": {"start": {"line": 0, "character": 0}, "end": {"line": 0, "character": 0}}}}), fault: f.into(), id: None });
                }
                "wrong-shape" => {
                    let m = *work.pick(&["textDocument/formatting", "textDocument/codeAction", "workspace/symbol", "codeAction/resolve", "textDocument/rename", "workspace/executeCommand"]);
                    let p = work.pick(&[json!({}), json!([1, 2]), json!("str"), json!({"textDocument": 5}), Value::Null]).clone();
                    steps.push(Step::Request { method: m.into(), params: p, fault: f.into(), id: None });
                    if work.chance(1, 3) {
                        steps.push(Step::Notify { method: "textDocument/didChange".into(), params: json!({"textDocument": {"uri": uri_str(&key), "version": 1}, "contentChanges": []}), class: "wrong-shape-notification".into() });
                    }
                }
                "command-unknown" => steps.push(Step::Request { method: "workspace/executeCommand".into(), params: json!({"command": "frobnicate", "arguments": []}), fault: f.into(), id: None }),
                "command-missing-args" => steps.push(Step::Request { method: "workspace/executeCommand".into(), params: json!({"command": "generate", "arguments": []}), fault: f.into(), id: None }),
                "command-missing-keys" => steps.push(Step::Request {
                    method: "workspace/executeCommand".into(),
                    params: json!({"command": "generate", "arguments": [{"new_key": "n1", "prompt_key": "no-prompt", "target_key": "no-target"}]}),
                    fault: f.into(),
                    id: None,
                }),
                "command-valid" => steps.push(Step::Request {
                    method: "workspace/executeCommand".into(),
                    params: json!({"command": "generate", "arguments": [{"new_key": "gen1", "prompt_key": probe_key, "target_key": key}]}),
                    fault: f.into(),
                    id: None,
                }),
                "duplicate-id" => {
                    let id = 5000 + steps.len() as i64;
                    steps.push(Step::Request { method: "textDocument/formatting".into(), params: req_params("textDocument/formatting", &uri_str(&key), 0, 0), fault: f.into(), id: Some(id) });
                    steps.push(Step::Request { method: "workspace/symbol".into(), params: json!({"query": ""}), fault: f.into(), id: Some(id) });
                }
                "cancel-request" => {
                    steps.push(Step::Request { method: "workspace/symbol".into(), params: json!({"query": "a"}), fault: String::new(), id: None });
                    steps.push(Step::Notify { method: "$/cancelRequest".into(), params: json!({"id": request_id_of(steps.len() - 1)}), class: f.into() });
                }
                "stray-response" => steps.push(Step::StrayResponse { id: 77 }),
                "shutdown-then-more" => steps.push(Step::Request { method: "shutdown".into(), params: Value::Null, fault: f.into(), id: None }),
                "exit-in-flight" => {
                    steps.push(Step::Request { method: "workspace/symbol".into(), params: json!({"query": ""}), fault: String::new(), id: None });
                    steps.push(Step::Request { method: "textDocument/formatting".into(), params: req_params("textDocument/formatting", &uri_str(&key), 0, 0), fault: String::new(), id: None });
                    steps.push(Step::Exit);
                    ended = true;
                }
                "client-crash" => {
                    steps.push(Step::Request { method: "workspace/symbol".into(), params: json!({"query": ""}), fault: String::new(), id: None });
                    steps.push(Step::Crash);
                    ended = true;
                }
                "rename-to-existing" => {
                    let (l, c) = link_pos(&text, &mut work);
                    steps.push(Step::Request { method: "textDocument/rename".into(), params: json!({"textDocument": text_doc(&key), "position": {"line": l, "character": c}, "newName": probe_key}), fault: f.into(), id: None });
                }
                "rename-dangling" => {
                    version += 1;
                    let body = format!("# t v{}\n\nsee [gone](zz) here\n", version);
                    steps.push(Step::Notify { method: "textDocument/didChange".into(), params: json!({"textDocument": {"uri": uri_str(&key), "version": 1}, "contentChanges": [{"text": body}]}), class: f.into() });
                    texts.insert(key.clone(), body);
                    docs.insert(key.clone(), Doc::default());
                    steps.push(Step::Request { method: "textDocument/rename".into(), params: json!({"textDocument": text_doc(&key), "position": {"line": 2, "character": 13}, "newName": "fresh-name"}), fault: f.into(), id: None });
                }
                _ => {}
            }
            if steps.len() > before && !ended {
                // liveness probe after each faulty request: formatting of a healthy note
                steps.push(Step::Request { method: "textDocument/formatting".into(), params: req_params("textDocument/formatting", &uri_str(&probe_key), 0, 0), fault: format!("probe-after:{}", f), id: None });
            }
            continue;
        }
        let kind = work.weighted(&[change_w, 8, 10, 5, 5, 5, 6, 4, 4, 3, 4, 9, 3]);
        match kind {
            0 | 1 => {
                version += 1;
                let vtok = format!("v{}", version);
                let future: Vec<String> = all_keys.iter().filter(|k| !docs.contains_key(*k)).cloned().collect();
                let (k, class) = if !future.is_empty() && work.chance(1, 7) {
                    let k = work.pick(&future).clone();
                    let d = Gen { rng: &mut work, cfg: &cfg }.doc();
                    docs.insert(k.clone(), d);
                    (k, "new_note".to_string())
                } else {
                    let mut g = Gen { rng: &mut work, cfg: &cfg };
                    let mut m = g.rng.below(gen::MUTATIONS.len());
                    // a long session stays on a big note: no wholesale replacement or emptying
                    while heavy && ["fresh_document", "empty_note"].contains(&gen::MUTATIONS[m]) {
                        m = g.rng.below(gen::MUTATIONS.len());
                    }
                    let d = docs.get_mut(&key).unwrap();
                    let name = gen::mutate(&mut g, d, m, &vtok);
                    (key.clone(), name.to_string())
                };
                // unique version token in a heading and a paragraph: every later answer is attributable
                let d = docs.get_mut(&k).unwrap();
                d.blocks.retain(|b| !matches!(b, gen::Block::Para(l) if l.len() == 1 && l[0].len() == 2 && matches!(&l[0][0], gen::Inline::Word(w) if w == "ver")));
                if big_doc_bytes > 0 && !big_used {
                    big_used = true;
                    let extra = gen::big_paragraphs(big_doc_bytes, &mut work);
                    d.blocks.extend(extra);
                }
                d.blocks.push(gen::Block::Para(vec![vec![gen::Inline::Word("ver".into()), gen::Inline::Word(vtok.clone())]]));
                let t = gen::render(&k, d);
                texts.insert(k.clone(), t.clone());
                if kind == 1 {
                    let with_text = work.chance(3, 4);
                    if with_text {
                        steps.push(Step::Notify { method: "textDocument/didSave".into(), params: json!({"textDocument": {"uri": uri_str(&k)}, "text": t}), class });
                    } else {
                        steps.push(Step::Notify { method: "textDocument/didSave".into(), params: json!({"textDocument": {"uri": uri_str(&k)}}), class: "save-without-text".into() });
                        steps.push(Step::Notify { method: "textDocument/didChange".into(), params: json!({"textDocument": {"uri": uri_str(&k), "version": 1}, "contentChanges": [{"text": t}]}), class });
                    }
                } else {
                    let ver = match version_mode {
                        0 => 1,
                        1 => {
                            let v = versions.entry(k.clone()).or_insert(0);
                            *v += 1;
                            *v
                        }
                        _ => {
                            let v = versions.entry(k.clone()).or_insert(0);
                            if *v >= 2 && work.chance(1, 4) {
                                // the editor closed and re-opened the note: numbering legally restarts
                                steps.push(Step::Notify { method: "textDocument/didClose".into(), params: json!({"textDocument": {"uri": uri_str(&k)}}), class: "did-close".into() });
                                steps.push(Step::Notify { method: "textDocument/didOpen".into(), params: json!({"textDocument": {"uri": uri_str(&k), "languageId": "markdown", "version": 1, "text": texts[&k]}}), class: "did-open".into() });
                                *v = 1;
                            }
                            *v += 1;
                            *v
                        }
                    };
                    steps.push(Step::Notify { method: "textDocument/didChange".into(), params: json!({"textDocument": {"uri": uri_str(&k), "version": ver}, "contentChanges": [{"text": t}]}), class });
                }
                if heavy && work.chance(1, 2) {
                    // "any request issued after a notification is answered from a state that includes it": with
                    // full-text edits the next edit repairs a lost one, so a lost edit shows only in between
                    let m = *work.pick(&["textDocument/formatting", "textDocument/formatting", "textDocument/inlayHint", "textDocument/documentSymbol"]);
                    steps.push(Step::Request { method: m.into(), params: req_params(m, &uri_str(&k), 0, 0), fault: String::new(), id: None });
                }
            }
            2 => {
                let i = steps.len();
                steps.push(Step::Request { method: "textDocument/formatting".into(), params: req_params("textDocument/formatting", &uri_str(&key), 0, 0), fault: String::new(), id: None });
                if work.chance(1, 4) {
                    steps.push(Step::ApplyOf { parent: i });
                }
            }
            3 => steps.push(Step::Request { method: "textDocument/references".into(), params: req_params("textDocument/references", &uri_str(&key), 0, 0), fault: String::new(), id: None }),
            4 => steps.push(Step::Request { method: "textDocument/inlayHint".into(), params: req_params("textDocument/inlayHint", &uri_str(&key), 0, 0), fault: String::new(), id: None }),
            5 => steps.push(Step::Request { method: "textDocument/documentSymbol".into(), params: req_params("textDocument/documentSymbol", &uri_str(&key), 0, 0), fault: String::new(), id: None }),
            6 => {
                let q = if work.chance(1, 8) {
                    // a long query with multi-byte characters at every offset class
                    let mut q = "x".repeat(work.below(4));
                    while q.len() < 170 + work.below(120) {
                        q.push_str(*work.pick(gen::WORDS));
                        q.push(' ');
                    }
                    q
                } else if work.chance(1, 2) {
                    String::new()
                } else {
                    work.pick(gen::WORDS).to_string()
                };
                steps.push(Step::Request { method: "workspace/symbol".into(), params: json!({"query": q}), fault: String::new(), id: None });
            }
            7 => {
                let (l, c) = link_pos(&text, &mut work);
                steps.push(Step::Request { method: "textDocument/definition".into(), params: req_params("textDocument/definition", &uri_str(&key), l, c), fault: String::new(), id: None });
            }
            8 => steps.push(Step::Request { method: "textDocument/completion".into(), params: req_params("textDocument/completion", &uri_str(&key), 0, 0), fault: String::new(), id: None }),
            9 => {
                let (l, c) = link_pos(&text, &mut work);
                steps.push(Step::Request { method: "textDocument/prepareRename".into(), params: req_params("textDocument/prepareRename", &uri_str(&key), l, c), fault: String::new(), id: None });
            }
            10 => {
                let (l, c) = link_pos(&text, &mut work);
                steps.push(Step::Request { method: "textDocument/rename".into(), params: json!({"textDocument": text_doc(&key), "position": {"line": l, "character": c}, "newName": format!("renamed-note-{}", steps.len())}), fault: String::new(), id: None });
            }
            11 => {
                let l = work.below(text.lines().count().max(1)) as u32;
                let i = steps.len();
                steps.push(Step::Request { method: "textDocument/codeAction".into(), params: req_params("textDocument/codeAction", &uri_str(&key), l, 0), fault: String::new(), id: None });
                if work.chance(7, 10) {
                    let j = steps.len();
                    steps.push(Step::ResolveOf { parent: i, pick: work.below(5), fault: String::new() });
                    if work.chance(1, 3) {
                        steps.push(Step::ApplyOf { parent: j });
                    }
                }
            }
            _ => {
                if work.chance(1, 2) {
                    let mut label = "x".repeat(work.below(4));
                    if work.chance(1, 2) {
                        while label.len() < 190 + work.below(80) {
                            label.push_str(*work.pick(gen::WORDS));
                            label.push(' ');
                        }
                    }
                    steps.push(Step::Request { method: "completionItem/resolve".into(), params: json!({"label": label}), fault: String::new(), id: None });
                } else {
                    // legal notifications that carry nothing to apply: they must not disturb later edits
                    match work.below(3) {
                        0 => steps.push(Step::Notify { method: "textDocument/didChange".into(), params: json!({"textDocument": {"uri": uri_str(&key), "version": 1}, "contentChanges": []}), class: "empty-content-changes".into() }),
                        1 => steps.push(Step::Notify { method: "textDocument/didOpen".into(), params: json!({"textDocument": {"uri": uri_str(&key), "languageId": "markdown", "version": 1, "text": text}}), class: "did-open".into() }),
                        _ => steps.push(Step::Notify { method: "textDocument/didClose".into(), params: json!({"textDocument": {"uri": uri_str(&key)}}), class: "did-close".into() }),
                    }
                }
            }
        }
    }
    let final_battery = swarm.chance(1, 4) || heavy;
    let program = Program { refs_ext, client_name, config, library, steps, final_probe: true, disk, final_battery };
    GenOut { program, policy_name, policy }
}

pub fn req_params(method: &str, uri: &str, line: u32, ch: u32) -> Value {
    let td = json!({"uri": uri});
    match method {
        "textDocument/formatting" => json!({"textDocument": td, "options": {"tabSize": 2, "insertSpaces": true}}),
        "textDocument/inlayHint" => json!({"textDocument": td, "range": {"start": {"line": 0, "character": 0}, "end": {"line": 10000, "character": 0}}}),
        "textDocument/references" => json!({"textDocument": td, "position": {"line": line, "character": ch}, "context": {"includeDeclaration": false}}),
        "textDocument/documentSymbol" => json!({"textDocument": td}),
        // a third of the code-action requests carry a non-empty selection (only the helix client gets actions then)
        "textDocument/codeAction" => json!({"textDocument": td, "range": {"start": {"line": line, "character": ch}, "end": {"line": line + (line % 3 == 1) as u32, "character": ch + if line % 3 == 2 { 4 } else { 0 }}}, "context": {"diagnostics": []}}),
        "textDocument/rename" => json!({"textDocument": td, "position": {"line": line, "character": ch}, "newName": "new-name"}),
        _ => json!({"textDocument": td, "position": {"line": line, "character": ch}}),
    }
}

/// steps that must go when step `i` is removed (dependents), as a sorted list including i
pub fn dependents(steps: &[Step], i: usize) -> Vec<usize> {
    let mut gone = vec![i];
    let mut changed = true;
    while changed {
        changed = false;
        for (j, s) in steps.iter().enumerate() {
            let parent = match s {
                Step::ResolveOf { parent, .. } | Step::ApplyOf { parent } => Some(*parent),
                _ => None,
            };
            if let Some(p) = parent {
                if gone.contains(&p) && !gone.contains(&j) {
                    gone.push(j);
                    changed = true;
                }
            }
        }
    }
    gone.sort();
    gone
}

/// remove the given steps and renumber parents
pub fn without(program: &Program, gone: &[usize]) -> Program {
    let mut map: BTreeMap<usize, usize> = BTreeMap::new();
    let mut steps = vec![];
    for (i, s) in program.steps.iter().enumerate() {
        if gone.contains(&i) {
            continue;
        }
        map.insert(i, steps.len());
        steps.push(s.clone());
    }
    for s in steps.iter_mut() {
        match s {
            Step::ResolveOf { parent, .. } | Step::ApplyOf { parent } => {
                *parent = *map.get(parent).unwrap_or(&usize::MAX);
            }
            _ => {}
        }
    }
    // request ids are derived from step indexes; cancel notifications carrying ids are left as they are
    Program { steps, ..program.clone() }
}
