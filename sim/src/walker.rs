//! C20 invariant walker (DESIGN.md 5.6). Uses only public API of `liwe::graph::Graph`.

use std::collections::{BTreeMap, HashMap, HashSet};

use liwe::graph::graph_node::GraphNode;
use liwe::graph::{Graph, GraphContext};
use liwe::model::node::{NodeIter, NodePointer};
use liwe::model::{Key, NodeId};

#[derive(Debug, Clone, PartialEq)]
pub struct Broken {
    /// invariant number 1..7 as listed in DESIGN.md 5.6
    pub invariant: u8,
    pub what: String,
}

fn b<T>(invariant: u8, what: String) -> Result<T, Broken> {
    Err(Broken { invariant, what })
}

pub struct WalkStats {
    pub live_nodes: usize,
    pub tombstones: usize,
    pub roots: usize,
}

/// structural description of one block in pre-order: (depth, kind symbol, plain text, ref key)
pub type Shape = Vec<(usize, String, String, String)>;

fn walk(graph: &Graph, id: NodeId, depth: usize, root: NodeId, parent: NodeId, owner: &mut HashMap<NodeId, NodeId>, order: &mut Vec<(NodeId, usize, NodeId)>) -> Result<(), Broken> {
    let n = graph.nodes().len() as NodeId;
    let mut cur = Some(id);
    let mut prev_expected = parent; // first in chain: prev must be the parent
    while let Some(i) = cur {
        if i >= n {
            return b(2, format!("pointer to id {} beyond arena length {}", i, n));
        }
        let node = graph.graph_node(i);
        if node.is_empty() {
            return b(3, format!("walk from root {} reaches tombstone {}", root, i));
        }
        if node.id() != i {
            return b(2, format!("node at index {} has id {}", i, node.id()));
        }
        if let Some(other) = owner.insert(i, root) {
            return b(3, format!("node {} reached twice (roots {} and {})", i, other, root));
        }
        if i != root {
            if node.prev_id() != Some(prev_expected) {
                return b(2, format!("node {} has prev {:?}, expected {}", i, node.prev_id(), prev_expected));
            }
            if node.is_document() {
                return b(1, format!("document node {} inside the tree of root {}", i, root));
            }
        }
        order.push((i, depth, parent));
        if let Some(c) = node.child_id() {
            walk(graph, c, depth + 1, root, i, owner, order)?;
        }
        if i == root {
            break;
        }
        prev_expected = i;
        cur = node.next_id();
    }
    Ok(())
}

/// Check invariants 1,2,3,5,6 on `graph`. Returns per-key pre-order shapes for invariant 4.
pub fn check(graph: &Graph) -> Result<(WalkStats, BTreeMap<String, (Shape, Vec<NodeId>)>), Broken> {
    let nodes = graph.nodes();
    let n = nodes.len();
    let keys = graph.keys();
    // 1. keys -> live Document nodes, distinct roots
    let mut roots: HashMap<NodeId, Key> = HashMap::new();
    for key in &keys {
        let id = match graph.get_node_id(key) {
            Some(id) => id,
            None => return b(1, format!("key {} has no root", key)),
        };
        if id as usize >= n {
            return b(1, format!("key {} root {} beyond arena", key, id));
        }
        match &nodes[id as usize] {
            GraphNode::Document(d) => {
                if d.key() != key {
                    return b(1, format!("key {} maps to document node of key {}", key, d.key()));
                }
                if d.id() != id {
                    return b(1, format!("key {} root index {} holds id {}", key, id, d.id()));
                }
            }
            GraphNode::Empty => return b(1, format!("key {} maps to tombstone {}", key, id)),
            _ => return b(1, format!("key {} maps to non-document node {}", key, id)),
        }
        if let Some(other) = roots.insert(id, key.clone()) {
            return b(1, format!("keys {} and {} share root {}", other, key, id));
        }
    }
    // 2+3: walks
    let mut owner: HashMap<NodeId, NodeId> = HashMap::new();
    let mut shapes = BTreeMap::new();
    let mut sorted_keys = keys.clone();
    sorted_keys.sort();
    for key in &sorted_keys {
        let root = graph.get_node_id(key).unwrap();
        let mut order = vec![];
        walk(graph, root, 0, root, root, &mut owner, &mut order)?;
        // 5. navigation agrees with the walk
        let mut shape: Shape = vec![];
        let mut ids = vec![];
        for (id, depth, parent) in &order {
            let p = graph.node(*id);
            if *id != root {
                let k = crate::canon::guarded(|| p.node_key());
                if k.as_ref().ok() != Some(key) {
                    return b(5, format!("node {} of note {} reports node_key {:?}", id, key, k));
                }
                let doc = crate::canon::guarded(|| p.to_document().and_then(|d| d.id()));
                if doc != Ok(Some(root)) {
                    return b(5, format!("node {} of note {} reports document {:?}, expected {}", id, key, doc, root));
                }
                let par = crate::canon::guarded(|| p.to_parent().and_then(|d| d.id()));
                if par != Ok(Some(*parent)) {
                    return b(5, format!("node {} of note {} reports parent {:?}, walk says {}", id, key, par, parent));
                }
                if graph.key_of(*id) != *key {
                    return b(5, format!("key_of({}) = {} but node is in note {}", id, graph.key_of(*id), key));
                }
            }
            let gn = graph.graph_node(*id);
            let text = match p.node() {
                Some(liwe::model::node::Node::Table(t)) => format!(
                    "{}#{}",
                    t.header.iter().map(|c| c.iter().map(|i| i.plain_text()).collect::<String>()).collect::<Vec<_>>().join("|"),
                    t.rows.iter().map(|r| r.iter().map(|c| c.iter().map(|i| i.plain_text()).collect::<String>()).collect::<Vec<_>>().join("|")).collect::<Vec<_>>().join("/")
                ),
                Some(n) => n.plain_text(),
                None => String::new(),
            };
            let sym = if gn.is_ordered_list() { "OL".to_string() } else { gn.to_symbol() };
            shape.push((*depth, sym, text, gn.ref_key().map(|k| k.to_string()).unwrap_or_default()));
            ids.push(*id);
        }
        shapes.insert(key.to_string(), (shape, ids));
    }
    // 3. every live node is reached
    let mut live = 0;
    let mut tomb = 0;
    let mut line_owner: HashMap<usize, NodeId> = HashMap::new();
    let mut child_target: HashSet<NodeId> = HashSet::new();
    for (i, node) in nodes.iter().enumerate() {
        if node.is_empty() {
            tomb += 1;
            continue;
        }
        live += 1;
        if !owner.contains_key(&(i as NodeId)) {
            return b(3, format!("live node {} ({}) is not reachable from any root", i, node.to_symbol()));
        }
        for t in [node.child_id(), if node.is_document() { None } else { node.next_id() }].into_iter().flatten() {
            if !child_target.insert(t) {
                return b(2, format!("node {} is the child/next target of two nodes", t));
            }
        }
        // 6. line ids
        let mut lines: Vec<usize> = vec![];
        if let Some(l) = node.line_id() {
            lines.push(l);
        }
        if let Some(h) = node.table_header() {
            lines.extend(h);
        }
        if let Some(rs) = node.table_rows() {
            for r in rs {
                lines.extend(r);
            }
        }
        for l in lines {
            if crate::canon::guarded(|| graph.get_line(l).id()).ok() != Some(l) {
                return b(6, format!("node {} refers to line {} which is out of range or mislabelled", i, l));
            }
            if let Some(o) = line_owner.insert(l, i as NodeId) {
                return b(6, format!("line {} owned by nodes {} and {}", l, o, i));
            }
        }
    }
    // 8. removed versions are unreachable through the backlink index too: every id it returns for a note is a
    //    live block that really refers to that note (a stale entry of an old version must never resolve to a block
    //    of a newer one)
    let mut targets: std::collections::BTreeSet<Key> = keys.iter().cloned().collect();
    for node in nodes.iter() {
        if node.is_empty() {
            continue;
        }
        if let Some(k) = node.ref_key() {
            targets.insert(k);
        }
        if let Some(l) = node.line_id() {
            if let Ok(ks) = crate::canon::guarded(|| graph.get_line(l).ref_keys()) {
                targets.extend(ks);
            }
        }
    }
    for key in &targets {
        let (blocks, inlines) = match crate::canon::guarded(|| (graph.get_block_references_to(key), graph.get_inline_references_to(key))) {
            Ok(x) => x,
            Err(p) => return b(8, format!("asking the index for references to {} fails: {} (a stale id of a removed version)", key, p)),
        };
        for id in blocks {
            let ok = (id as usize) < n && nodes[id as usize].is_reference_to(key);
            if !ok {
                return b(8, format!("the index lists block {} as a block reference to {}, but that block is {}", id, key, if (id as usize) < n { nodes[id as usize].to_symbol() } else { "out of range".into() }));
            }
        }
        for id in inlines {
            let ok = (id as usize) < n && nodes[id as usize].line_id().map(|l| crate::canon::guarded(|| graph.get_line(l).ref_keys().contains(key)).unwrap_or(false)).unwrap_or(false);
            if !ok {
                return b(8, format!("the index lists block {} as holding a link to {}, but it does not", id, key));
            }
        }
    }
    Ok((WalkStats { live_nodes: live, tombstones: tomb, roots: keys.len() }, shapes))
}

/// Invariant 4: pre-order of each note equals the pre-order of the note in `reference`
/// (a graph freshly built from the model's texts).
pub fn same_shapes(inc: &BTreeMap<String, (Shape, Vec<NodeId>)>, fresh: &BTreeMap<String, (Shape, Vec<NodeId>)>) -> Result<(), Broken> {
    if inc.keys().collect::<Vec<_>>() != fresh.keys().collect::<Vec<_>>() {
        return b(4, format!("key sets differ: {:?} vs fresh {:?}", inc.keys().collect::<Vec<_>>(), fresh.keys().collect::<Vec<_>>()));
    }
    for (k, (shape, _)) in inc {
        let (fs, _) = &fresh[k];
        if shape != fs {
            let i = shape.iter().zip(fs.iter()).position(|(a, b)| a != b).unwrap_or(shape.len().min(fs.len()));
            return b(4, format!("note {}: block #{} in document order is {:?}, a fresh parse has {:?} (lengths {} vs {})", k, i, shape.get(i), fs.get(i), shape.len(), fs.len()));
        }
    }
    Ok(())
}

/// probe (not demanded): ids increase along the pre-order walk
pub fn ids_increasing(shapes: &BTreeMap<String, (Shape, Vec<NodeId>)>) -> bool {
    shapes.values().all(|(_, ids)| ids.windows(2).all(|w| w[0] < w[1]))
}

/// Invariant 7 state: arena length never decreases; tombstoned ids never live again.
#[derive(Default)]
pub struct ArenaHistory {
    pub len: usize,
    pub dead: HashSet<NodeId>,
}

impl ArenaHistory {
    pub fn step(&mut self, graph: &Graph) -> Result<(), Broken> {
        let nodes = graph.nodes();
        if nodes.len() < self.len {
            return b(7, format!("arena shrank from {} to {}", self.len, nodes.len()));
        }
        for (i, n) in nodes.iter().enumerate() {
            if n.is_empty() {
                self.dead.insert(i as NodeId);
            } else if self.dead.contains(&(i as NodeId)) {
                return b(7, format!("id {} was a removed version and is live again", i));
            }
        }
        self.len = nodes.len();
        Ok(())
    }
}
