//! Binding to the LD_PRELOAD shim's entropy control. When the shim is not loaded the calls are no-ops
//! and `controlled()` is false (recorded in the evidence).

use std::ffi::{c_char, c_void};
use std::sync::OnceLock;

extern "C" {
    fn dlsym(handle: *mut c_void, symbol: *const c_char) -> *mut c_void;
}

struct Fns {
    set: Option<unsafe extern "C" fn(u64)>,
    unset: Option<unsafe extern "C" fn()>,
    draws: Option<unsafe extern "C" fn() -> u64>,
}

static FNS: OnceLock<Fns> = OnceLock::new();

fn fns() -> &'static Fns {
    FNS.get_or_init(|| unsafe {
        let a = dlsym(std::ptr::null_mut(), b"simlibc_set_entropy\0".as_ptr() as *const c_char);
        let b = dlsym(std::ptr::null_mut(), b"simlibc_unset_entropy\0".as_ptr() as *const c_char);
        let c = dlsym(std::ptr::null_mut(), b"simlibc_entropy_draws\0".as_ptr() as *const c_char);
        Fns {
            set: if a.is_null() { None } else { Some(std::mem::transmute::<*mut c_void, unsafe extern "C" fn(u64)>(a)) },
            unset: if b.is_null() { None } else { Some(std::mem::transmute::<*mut c_void, unsafe extern "C" fn()>(b)) },
            draws: if c.is_null() { None } else { Some(std::mem::transmute::<*mut c_void, unsafe extern "C" fn() -> u64>(c)) },
        }
    })
}

pub fn controlled() -> bool {
    fns().set.is_some()
}

pub fn set(seed: u64) {
    if let Some(f) = fns().set {
        unsafe { f(seed) }
    }
}

pub fn unset() {
    if let Some(f) = fns().unset {
        unsafe { f() }
    }
}

pub fn draws() -> u64 {
    match fns().draws {
        Some(f) => unsafe { f() },
        None => 0,
    }
}

/// Call once at process start, before the first `set`: forces the hash keys of the calling thread and of the
/// global rayon pool thread(s) to be drawn now, from real entropy, so that no run's seeded stream is ever
/// consumed by a thread that outlives the run (which would make a run depend on its position in the batch).
pub fn settle_long_lived_threads() {
    unset();
    let m: std::collections::HashMap<u8, u8> = std::collections::HashMap::new();
    std::hint::black_box(&m);
    let n = rayon::current_num_threads();
    rayon::broadcast(|_| {
        let s: std::collections::HashSet<u8> = std::collections::HashSet::new();
        std::hint::black_box(&s);
    });
    std::hint::black_box(n);
    // iwe's only process-global lazy (the code-action-kind map) creates a HashMap, i.e. draws hash keys, on
    // whichever thread touches it first: force that now, not inside some run
    let k = iwes::router::server::action::identifier_to_action_kind("refactor.verif.settle".to_string());
    std::hint::black_box(k);
}

// ---- unscheduled ("wild") thread seam of the shim

fn sym(name: &[u8]) -> *mut c_void {
    unsafe { dlsym(std::ptr::null_mut(), name.as_ptr() as *const c_char) }
}

pub fn mark_server_thread(on: bool) {
    let p = sym(b"simlibc_mark_server_thread\0");
    if !p.is_null() {
        unsafe { std::mem::transmute::<*mut c_void, unsafe extern "C" fn(i32)>(p)(on as i32) }
    }
}

pub fn expect_spawn() {
    let p = sym(b"simlibc_expect_spawn\0");
    if !p.is_null() {
        unsafe { std::mem::transmute::<*mut c_void, unsafe extern "C" fn()>(p)() }
    }
}

pub fn wild_config(seed: u64, max_delay_us: i64) {
    let p = sym(b"simlibc_wild_config\0");
    if !p.is_null() {
        unsafe { std::mem::transmute::<*mut c_void, unsafe extern "C" fn(u64, i64)>(p)(seed, max_delay_us) }
    }
}

pub fn wild_live() -> i64 {
    let p = sym(b"simlibc_wild_live\0");
    if p.is_null() {
        0
    } else {
        unsafe { std::mem::transmute::<*mut c_void, unsafe extern "C" fn() -> i64>(p)() }
    }
}

pub fn wild_total() -> i64 {
    let p = sym(b"simlibc_wild_total\0");
    if p.is_null() {
        0
    } else {
        unsafe { std::mem::transmute::<*mut c_void, unsafe extern "C" fn() -> i64>(p)() }
    }
}

/// wait (real time, bounded) until no unscheduled thread is alive; returns false on timeout
pub fn wait_wild_threads(timeout_ms: u64) -> bool {
    let t0 = std::time::Instant::now();
    while wild_live() > 0 {
        if t0.elapsed().as_millis() as u64 > timeout_ms {
            return false;
        }
        std::thread::sleep(std::time::Duration::from_micros(100));
    }
    true
}
