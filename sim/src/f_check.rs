//! C19 — on-disk normalize rewrites notes in place and never leaves a damaged file (world F).

use std::collections::BTreeMap;
use std::path::{Path, PathBuf};
use std::time::Instant;

use serde::{Deserialize, Serialize};
use serde_json::{json, Value};

use crate::rng::{self, Rng};
use crate::runner::{self, Agg, EvidenceIn, Failure};
use crate::world_f::{self, Expected, Judge, RunCfg, TraceOp, Tree};

#[derive(Clone, Debug, Serialize, Deserialize, PartialEq)]
pub struct Plan {
    /// label used in signatures, e.g. "write/partial-ENOSPC/mid"
    pub label: String,
    /// shim plan text ("" = fault-free)
    pub text: String,
    /// legal non-failure (short writes, EINTR) or no fault at all: the run must end in the fault-free result
    pub must_succeed: bool,
}

#[derive(Clone, Debug, Serialize, Deserialize)]
pub struct Case {
    pub tree: Tree,
    pub plan: Plan,
    pub entropy: u64,
    pub readdir: u64,
    pub threads: usize,
}

fn iwe_bin() -> PathBuf {
    std::env::var("VERIF_IWE_BIN").map(PathBuf::from).unwrap_or_else(|_| runner::verif_path("target/iwe/release/iwe"))
}

fn shim() -> PathBuf {
    runner::verif_path("target/libsimlibc.so")
}

pub fn runs_for(tier: &str) -> u64 {
    if let Ok(v) = std::env::var("VERIF_RUNS") {
        if let Ok(n) = v.parse() {
            return n;
        }
    }
    match tier {
        "thorough" => 3000,
        _ => 6000,
    }
}

fn errno_name(e: i64) -> &'static str {
    match e {
        5 => "EIO",
        13 => "EACCES",
        18 => "EXDEV",
        24 => "EMFILE",
        28 => "ENOSPC",
        122 => "EDQUOT",
        _ => "E?",
    }
}

/// every fault plan the fault-free trace gives rise to
pub fn plans_from_trace(trace: &[TraceOp]) -> Vec<Plan> {
    let mut plans = vec![];
    let mut seen: BTreeMap<(String, String), usize> = BTreeMap::new();
    for t in trace {
        let occ = {
            let c = seen.entry((t.op.clone(), t.path.clone())).or_insert(0);
            *c += 1;
            *c
        };
        let op = t.op.as_str();
        if !["openw", "openr", "write", "close", "rename", "fsync", "unlink", "truncate", "link"].contains(&op) {
            continue;
        }
        let rule = |action: &str| format!("{} {} {} {}\n", op, plan_path(&t.path), occ, action);
        plans.push(Plan { label: format!("{}/kill", op), text: rule("kill"), must_succeed: false });
        match op {
            "openw" => {
                for e in [13, 24, 28] {
                    plans.push(Plan { label: format!("openw/err-{}", errno_name(e)), text: rule(&format!("err {}", e)), must_succeed: false });
                }
                plans.push(Plan { label: "openw/eintr".into(), text: rule("eintr 2"), must_succeed: true });
            }
            "write" => {
                let len = t.len;
                let mut offs: Vec<(usize, &str)> = vec![(0, "0")];
                if len > 1 {
                    offs.push((1, "1"));
                }
                if len > 3 {
                    offs.push((len / 2, "mid"));
                }
                if len > 2 {
                    offs.push((len - 1, "len-1"));
                }
                for (k, cls) in &offs {
                    for e in [28, 122, 5] {
                        plans.push(Plan { label: format!("write/partial-{}/{}", errno_name(e), cls), text: rule(&format!("partial {} {}", k, e)), must_succeed: false });
                    }
                    plans.push(Plan { label: format!("write/killafter/{}", cls), text: rule(&format!("killafter {}", k)), must_succeed: false });
                }
                plans.push(Plan { label: "write/eintr".into(), text: rule("eintr 3"), must_succeed: true });
            }
            "close" => plans.push(Plan { label: "close/err-EIO".into(), text: rule("err 5"), must_succeed: false }),
            "rename" => {
                for e in [18, 13, 28] {
                    plans.push(Plan { label: format!("rename/err-{}", errno_name(e)), text: rule(&format!("err {}", e)), must_succeed: false });
                }
            }
            "fsync" => plans.push(Plan { label: "fsync/err-EIO".into(), text: rule("err 5"), must_succeed: false }),
            "unlink" => plans.push(Plan { label: "unlink/err-EACCES".into(), text: rule("err 13"), must_succeed: false }),
            "truncate" => plans.push(Plan { label: "truncate/err-EIO".into(), text: rule("err 5"), must_succeed: false }),
            _ => {}
        }
    }
    for c in [1, 7, 4096] {
        plans.push(Plan { label: format!("write/short/{}", c), text: format!("write * 0 short {}\n", c), must_succeed: true });
    }
    // canonical order: with more than one rayon thread the order of operations on different files in the
    // trace is not controlled (DESIGN.md 5.4); the set of plans is, so sort it before anything samples from it
    plans.sort_by(|a, b| (&a.text, &a.label).cmp(&(&b.text, &b.label)));
    plans
}

/// plan paths are whitespace-delimited in the shim's plan file: blanks are written as 0x01
fn plan_path(p: &str) -> String {
    p.replace(' ', "\x01")
}

pub struct TreeOutcome {
    pub discarded: bool,
    pub failures: Vec<(Case, world_f::Violation)>,
    pub execs: u64,
    pub plans_total: usize,
    pub plans_run: Vec<(String, bool)>, // (label + hash of the plan text, fired)
    pub trace_len: usize,
    pub sample: Option<Value>,
}

fn exec_case(case: &Case, scratch: &Path, expected: &Expected) -> Result<(Vec<world_f::Violation>, world_f::RunResult), String> {
    let root = scratch.join("root");
    let _ = std::fs::remove_dir_all(&root);
    world_f::materialise(&case.tree, &root).map_err(|e| format!("materialise: {}", e))?;
    let before = world_f::snapshot(&root);
    let iwe = iwe_bin();
    let sh = shim();
    let cfg = RunCfg { iwe: &iwe, shim: &sh, entropy: case.entropy, readdir: case.readdir, threads: case.threads, plan: if case.plan.text.is_empty() { None } else { Some(case.plan.text.as_str()) } };
    let (res, _stdout) = world_f::run_iwe(&root, scratch, &["normalize"], &cfg).map_err(|e| format!("run iwe: {}", e))?;
    let after = world_f::snapshot(&root);
    let fired = res.trace.iter().any(|t| t.detail.contains("err") || t.detail.contains("kill") || t.detail.contains("partial") || t.detail.contains("short") || t.detail.contains("eintr"));
    // a plan that did not fire is judged as a fault-free run
    let must_succeed = case.plan.must_succeed || !fired;
    // a leftover whose removal was itself made to fail cannot be blamed on the program
    let unlink_failed: Vec<String> = res.trace.iter().filter(|t| t.op == "unlink" && t.detail.contains("err")).map(|t| t.path.clone()).collect();
    let j = Judge { tree: &case.tree, before: &before, after: &after, expected, fault: &case.plan.label, must_succeed, exit_code: res.exit_code, killed: res.killed, unlink_failed: &unlink_failed };
    let v = world_f::judge(&j);
    let _ = std::fs::remove_dir_all(&root);
    Ok((v, res))
}

pub fn run_tree(seed: u64, thorough: bool, scratch: &Path) -> Result<TreeOutcome, String> {
    let tree = world_f::generate(seed, thorough);
    let mut out = TreeOutcome { discarded: false, failures: vec![], execs: 0, plans_total: 0, plans_run: vec![], trace_len: 0, sample: None };
    let expected = match world_f::expected(&tree) {
        Some(e) => e,
        None => {
            out.discarded = true;
            return Ok(out);
        }
    };
    let mut sw = Rng::stream(seed, "swarm-f");
    let entropy = rng::mix2(seed, 11) | 1;
    let readdir = rng::mix2(seed, 12) | 1;
    let threads = *sw.pick(&[1usize, 1, 2, 4]);
    let free = Case { tree: tree.clone(), plan: Plan { label: "fault-free".into(), text: String::new(), must_succeed: true }, entropy, readdir, threads };
    let (v, res) = exec_case(&free, scratch, &expected)?;
    out.execs += 1;
    out.trace_len = res.trace.len();
    // harness self-check: a write phase that changed note files must be visible in the trace
    for x in v {
        out.failures.push((free.clone(), x));
    }
    let plans = plans_from_trace(&res.trace);
    out.plans_total = plans.len();
    let mut faults = Rng::stream(seed, "faults");
    let chosen: Vec<Plan> = if thorough {
        plans
    } else {
        // sample: bias towards write-phase faults (faults while idle test nothing)
        let mut idx: Vec<usize> = (0..plans.len()).collect();
        faults.shuffle(&mut idx);
        let mut picked = vec![];
        let mut writes = 0;
        for i in idx {
            let p = &plans[i];
            let write_phase = !p.label.starts_with("openr") && !(p.label.starts_with("close") && !p.text.contains(".tmp"));
            if write_phase || writes >= 4 || faults.chance(1, 5) {
                picked.push(p.clone());
                if write_phase {
                    writes += 1;
                }
            }
            if picked.len() >= 8 {
                break;
            }
        }
        picked
    };
    let base_ops: std::collections::BTreeSet<(String, String)> = res.trace.iter().map(|t| (t.op.clone(), t.path.clone())).collect();
    let mut second_level: Vec<Plan> = vec![];
    for plan in chosen {
        let case = Case { tree: tree.clone(), plan: plan.clone(), entropy, readdir, threads };
        let (v, res) = exec_case(&case, scratch, &expected)?;
        out.execs += 1;
        let fired = res.trace.iter().any(|t| t.detail.contains("err") || t.detail.contains("kill") || t.detail.contains("partial") || t.detail.contains("short") || t.detail.contains("eintr"));
        out.plans_run.push((format!("{}#{}", plan.label, rng::fnv(&plan.text) % 1_000_000), fired));
        for x in v {
            out.failures.push((case.clone(), x));
        }
        // fault sequences: operations that only happen *because* of the first fault (recovery, fallback, clean-up)
        // are fault points of their own
        if fired && !plan.must_succeed {
            let recovery: Vec<TraceOp> = res.trace.iter().filter(|t| !base_ops.contains(&(t.op.clone(), t.path.clone())) && !t.detail.contains("err") && !t.detail.contains("kill") && !t.detail.contains("partial")).cloned().collect();
            for p2 in plans_from_trace(&recovery) {
                if p2.label.starts_with("write/short") {
                    continue;
                }
                second_level.push(Plan { label: format!("{}+{}", plan.label, p2.label), text: format!("{}{}", plan.text, p2.text), must_succeed: false });
            }
        }
    }
    out.plans_total += second_level.len();
    let second: Vec<Plan> = if thorough {
        second_level.into_iter().take(400).collect()
    } else {
        let mut idx: Vec<usize> = (0..second_level.len()).collect();
        faults.shuffle(&mut idx);
        idx.into_iter().take(3).map(|i| second_level[i].clone()).collect()
    };
    for plan in second {
        let case = Case { tree: tree.clone(), plan: plan.clone(), entropy, readdir, threads };
        let (v, res) = exec_case(&case, scratch, &expected)?;
        out.execs += 1;
        let n_fired = res.trace.iter().filter(|t| t.detail.contains("err") || t.detail.contains("kill") || t.detail.contains("partial") || t.detail.contains("eintr")).count();
        out.plans_run.push((format!("2nd:{}#{}", plan.label.split('+').map(|l| l.split('/').take(2).collect::<Vec<_>>().join("/")).collect::<Vec<_>>().join("+"), rng::fnv(&plan.text) % 1_000_000), n_fired >= 2));
        for x in v {
            out.failures.push((case.clone(), x));
        }
    }
    if tree.files.len() <= 4 {
        out.sample = Some(json!({"seed": seed, "files": tree.files.iter().map(|f| f.rel.clone()).collect::<Vec<_>>(), "fault_free_trace": res_trace_sample(&res.trace), "plans": out.plans_run.iter().take(6).collect::<Vec<_>>()}));
    }
    Ok(out)
}

fn res_trace_sample(t: &[TraceOp]) -> Vec<String> {
    t.iter().take(24).map(|x| format!("{} {} -> {}", x.op, x.path, x.detail)).collect()
}

pub fn worker(tier: &str, seed: u64, from: u64, to: u64, _extra: &[String]) -> Agg {
    crate::quiet_panics();
    let t0 = Instant::now();
    let thorough = tier == "thorough";
    let mut agg = Agg::default();
    let scratch = world_f::scratch_root();
    let _ = std::fs::create_dir_all(&scratch);
    let progress_file = std::env::var("VERIF_WORKER_OUT").unwrap_or_default();
    let stride = runner::stride_of(_extra);
    let mut i = from;
    while i < to {
        let this_i = i;
        i += stride;
        let i = this_i;
        if !progress_file.is_empty() {
            runner::note_progress(&progress_file, i);
        }
        let s = runner::run_seed(seed, i);
        match run_tree(s, thorough, &scratch) {
            Err(e) => agg.errors.push(format!("tree {} seed {}: {}", i, s, e)),
            Ok(o) => {
                agg.runs += o.execs;
                agg.count("trees", 1);
                agg.count("plans_enumerable", o.plans_total as u64);
                agg.steps += o.trace_len as u64 * o.execs;
                if o.discarded {
                    agg.discarded += 1;
                    continue;
                }
                for (label, fired) in &o.plans_run {
                    let h = rng::mix2(s, rng::fnv(label));
                    agg.distinct.insert(h);
                    if *fired {
                        agg.distinct_nontrivial.insert(h);
                        let kind = label.split('#').next().unwrap_or(label);
                        if kind.starts_with("2nd:") {
                            agg.fault(kind, 1);
                        } else {
                            agg.fault(kind.split('/').take(2).collect::<Vec<_>>().join("/").as_str(), 1);
                        }
                    } else {
                        agg.count("plans_that_did_not_fire", 1);
                    }
                }
                agg.states.insert(rng::mix2(o.trace_len as u64, 3));
                for (case, v) in o.failures {
                    agg.fail(Failure { property: "C19".into(), signature: v.signature.clone(), run: i, seed: s, violation: serde_json::to_value(&v).unwrap(), case: serde_json::to_value(&case).unwrap() });
                }
                if let Some(sm) = o.sample {
                    if agg.samples.len() < 3 {
                        agg.samples.push(sm);
                    }
                }
            }
        }
    }
    let _ = std::fs::remove_dir_all(&scratch);
    agg.wall_s = t0.elapsed().as_secs_f64();
    agg
}

fn reproduces(case: &Case, signature: &str, scratch: &Path) -> Option<world_f::Violation> {
    let expected = world_f::expected(&case.tree)?;
    let (v, _) = exec_case(case, scratch, &expected).ok()?;
    v.into_iter().find(|x| x.signature == signature)
}

pub fn minimise(case: &Case, signature: &str, budget: usize, scratch: &Path) -> (Case, usize) {
    let mut best = case.clone();
    let mut used = 0;
    // drop files
    let mut i = 0;
    while i < best.tree.files.len() && used < budget {
        let mut c = best.clone();
        c.tree.files.remove(i);
        used += 1;
        if reproduces(&c, signature, scratch).is_some() {
            best = c;
        } else {
            i += 1;
        }
    }
    // shrink texts by paragraph
    for fi in 0..best.tree.files.len() {
        let text = match &best.tree.files[fi].text {
            Some(t) => t.clone(),
            None => continue,
        };
        let mut parts: Vec<String> = text.split("\n\n").map(|s| s.to_string()).collect();
        let mut k = 0;
        while k < parts.len() && parts.len() > 1 && used < budget {
            let mut p2 = parts.clone();
            p2.remove(k);
            let mut c = best.clone();
            c.tree.files[fi].text = Some(p2.join("\n\n"));
            used += 1;
            if reproduces(&c, signature, scratch).is_some() {
                best = c;
                parts = p2;
            } else {
                k += 1;
            }
        }
    }
    if best.threads != 1 && used < budget {
        let mut c = best.clone();
        c.threads = 1;
        used += 1;
        if reproduces(&c, signature, scratch).is_some() {
            best = c;
        }
    }
    best.tree.empty_dirs.clear();
    if reproduces(&best, signature, scratch).is_none() {
        best.tree.empty_dirs = case.tree.empty_dirs.clone();
    }
    (best, used)
}

/// Cross-check of the shim (thorough): the same fault injected by the kernel-side `strace -e inject=` instead
/// of LD_PRELOAD must lead to the same verdict. Returns (plans compared, disagreements, details).
pub fn strace_cross_check(seed: u64, want: usize) -> (usize, usize, Vec<String>) {
    let scratch = world_f::scratch_root().join("strace");
    let _ = std::fs::create_dir_all(&scratch);
    let mut compared = 0;
    let mut disagreements = 0;
    let mut details = vec![];
    let mut i = 0u64;
    while compared < want && i < 400 {
        i += 1;
        let s = runner::run_seed(seed ^ 0x57ACE, i);
        let tree = world_f::generate(s, false);
        let expected = match world_f::expected(&tree) {
            Some(e) if e.collisions.is_empty() => e,
            _ => continue,
        };
        let free = Case { tree: tree.clone(), plan: Plan { label: "fault-free".into(), text: String::new(), must_succeed: true }, entropy: 1, readdir: 0, threads: 1 };
        let (_, res) = match exec_case(&free, &scratch, &expected) {
            Ok(x) => x,
            Err(_) => continue,
        };
        // one simple plan per tree: error or kill at the first write / open / rename of one written file
        let mut r = Rng::stream(s, "strace");
        let writes: Vec<&TraceOp> = res.trace.iter().filter(|t| t.op == "write").collect();
        if writes.is_empty() {
            continue;
        }
        let t = *r.pick(&writes);
        if t.path.contains(' ') || !t.path.is_ascii() {
            continue;
        }
        let (label, rule, inject) = match r.below(4) {
            0 => ("write/partial-ENOSPC/0", format!("write {} 1 partial 0 28\n", t.path), "write:error=ENOSPC:when=1".to_string()),
            1 => ("write/kill", format!("write {} 1 kill\n", t.path), "write:signal=KILL:when=1".to_string()),
            2 => ("openw/err-EACCES", format!("openw {} 1 err 13\n", t.path), "openat:error=EACCES:when=1".to_string()),
            _ => ("write/partial-EIO/0", format!("write {} 1 partial 0 5\n", t.path), "write:error=EIO:when=1".to_string()),
        };
        let case = Case { tree: tree.clone(), plan: Plan { label: label.into(), text: rule, must_succeed: false }, entropy: 1, readdir: 0, threads: 1 };
        let (v_shim, _) = match exec_case(&case, &scratch, &expected) {
            Ok(x) => x,
            Err(_) => continue,
        };
        // kernel-side injection
        let root = scratch.join("root");
        let _ = std::fs::remove_dir_all(&root);
        if world_f::materialise(&tree, &root).is_err() {
            continue;
        }
        let before = world_f::snapshot(&root);
        let target = root.join(&t.path);
        let out = std::process::Command::new("strace")
            .arg("-f")
            .arg("-o")
            .arg("/dev/null")
            .arg("-e")
            .arg("trace=write,openat")
            .arg("-e")
            .arg(format!("inject={}", inject))
            .arg("-P")
            .arg(&target)
            .arg(iwe_bin())
            .arg("normalize")
            .current_dir(&root)
            .env("RAYON_NUM_THREADS", "1")
            .env_remove("LD_PRELOAD")
            .output();
        let out = match out {
            Ok(o) => o,
            Err(e) => {
                details.push(format!("strace could not run: {}", e));
                break;
            }
        };
        let after = world_f::snapshot(&root);
        let code = out.status.code().unwrap_or(137);
        let killed = out.status.code().is_none() || code == 137;
        let none: Vec<String> = vec![];
        let j = Judge { tree: &tree, before: &before, after: &after, expected: &expected, fault: label, must_succeed: false, exit_code: code, killed, unlink_failed: &none };
        let v_strace = world_f::judge(&j);
        let _ = std::fs::remove_dir_all(&root);
        compared += 1;
        let a: Vec<&String> = v_shim.iter().map(|x| &x.kind).collect();
        let b: Vec<&String> = v_strace.iter().map(|x| &x.kind).collect();
        if a != b {
            disagreements += 1;
            details.push(format!("tree seed {} plan {} on {}: shim verdict {:?}, strace verdict {:?} (exit {})", s, label, t.path, a, b, code));
        }
    }
    let _ = std::fs::remove_dir_all(&scratch);
    (compared, disagreements, details)
}

pub fn check(tier: &str, started: Instant) -> i32 {
    crate::quiet_panics();
    let seed = runner::env_seed();
    let trees = runs_for(tier);
    if !iwe_bin().exists() || !shim().exists() {
        eprintln!("HARNESS-ERROR: {} or {} missing (run ./check setup)", iwe_bin().display(), shim().display());
        return 2;
    }
    let agg = match runner::fan_out("F", tier, seed, trees, runner::jobs(), &[]) {
        Ok(a) => a,
        Err(e) => {
            eprintln!("HARNESS-ERROR: {}", e);
            return 2;
        }
    };
    if !agg.errors.is_empty() {
        eprintln!("HARNESS-ERROR: {} trees could not be executed, first: {}", agg.errors.len(), agg.errors[0]);
        return 2;
    }
    let scratch = world_f::scratch_root();
    let _ = std::fs::create_dir_all(&scratch);
    if !agg.aborted_runs.is_empty() {
        eprintln!("HARNESS-ERROR: a worker process died during run indexes {:?} (stack overflow or abort inside the system under test or the harness); reproduce with: sim worker <world> <tier> <seed> <i> <i+1> /tmp/x.json", agg.aborted_runs);
        return 2;
    }
    let findings = runner::load_findings();
    let mut violations = 0u64;
    let mut known_seen = vec![];
    let min_deadline = started.elapsed().as_secs() + 180;
    let mut minimise_left = 6;
    for (k, f) in &agg.failures {
        if let Some(kf) = runner::known(&findings, "C19", &f.signature) {
            println!("KNOWN-FINDING: property=C19 {} [signature {} seen in {} executions]", kf.what, f.signature, agg.failure_counts.get(k).copied().unwrap_or(0));
            known_seen.push(f.signature.clone());
            continue;
        }
        violations += 1;
        let case: Case = serde_json::from_value(f.case.clone()).expect("case");
        let (mcase, evals, minimised) = if minimise_left > 0 && std::env::var("VERIF_NO_MINIMISE").is_err() && started.elapsed().as_secs() < min_deadline {
            minimise_left -= 1;
            let (m, used) = minimise(&case, &f.signature, 120, &scratch);
            if reproduces(&m, &f.signature, &scratch).is_some() {
                (m, used, true)
            } else {
                (case.clone(), used, false)
            }
        } else {
            (case.clone(), 0, false)
        };
        let violation = reproduces(&mcase, &f.signature, &scratch).map(|v| serde_json::to_value(v).unwrap()).unwrap_or(f.violation.clone());
        let path = runner::replay_path(&format!("C19-{}-{}.json", f.seed, rng::fnv(&f.signature) % 100000));
        let rv = json!({"world": "F", "property": "C19", "signature": f.signature, "seed": f.seed, "run": f.run, "minimised": minimised, "minimiser_evaluations": evals, "violation": violation, "case": mcase, "how_to_replay": "cd /verif && ./check replay <this file>"});
        if let Err(e) = runner::write_json(&path, &rv) {
            eprintln!("HARNESS-ERROR: {}", e);
            return 2;
        }
        println!("VIOLATION property=C19 replay={}", path.display());
        println!("  signature={} executions_with_it={} first_seed={}", f.signature, agg.failure_counts.get(k).copied().unwrap_or(0), f.seed);
        println!("  what: {}", violation.get("detail").and_then(|d| d.as_str()).unwrap_or("").chars().take(400).collect::<String>());
    }
    let _ = std::fs::remove_dir_all(&scratch);
    let (x_compared, x_disagree, x_details) = if tier == "thorough" || std::env::var("VERIF_STRACE").is_ok() { strace_cross_check(seed, 20) } else { (0, 0, vec![]) };
    if x_disagree > 0 {
        // the shim and the kernel disagree about what the binary does: nothing this check says can be trusted
        eprintln!("HARNESS-ERROR: shim/strace cross-check disagrees in {} of {} plans: {:?}", x_disagree, x_compared, x_details);
        return 2;
    }
    let exhaustive_note = if tier == "thorough" { "thorough: for every generated tree EVERY operation boundary of the fault-free trace is enumerated (kill before each intercepted open/write/close/rename/fsync/unlink, every errno of the op's class, partial writes and kills after 0/1/mid/len-1 bytes of every write, EINTR, three short-write sizes)" } else { "quick: per tree the fault-free run plus up to 8 plans sampled from the same enumeration, biased to the write phase" };
    let ev = EvidenceIn {
        property: "C19",
        tier,
        seed,
        level: "fault_enumeration",
        agg: &agg,
        rule: "A case is one execution of the real `iwe normalize` binary on a generated directory tree (nested directories, names with blanks/non-ASCII/dots, non-note files, unreadable .md, optional .iwe/config.toml with library.path and refs_extension) under one fault plan keyed by (path, operation, occurrence). Distinct = (tree seed, plan label). Non-trivial = the planned fault actually fired (seen in the shim's trace). evaluations counts executions including the fault-free run of every tree.",
        real: &["iwe binary (release, hooks off) built from /repo", "liwe::fs, Graph::import/export inside it", "kernel file system (scratch directory under target/scratch)", "rayon with 1/2/4 threads"],
        stubs: &["libc boundary: open/openat/creat/write/pwrite/writev/close/rename*/fsync/unlink*/truncate/link via LD_PRELOAD shim", "entropy and readdir order seeded by the shim", "reference content = liwe Graph::import(state).export() linked into the harness (fault-free, same code)"],
        assumptions: &[
            "process-level faults only (what write() accepted is in the file); no power-loss model, fsync is not demanded",
            "read errors are not injected: a note that cannot be read legitimately changes the export of the others",
            exhaustive_note,
        ],
        violations,
        known_findings: known_seen,
        extra: json!({"failure_signatures": agg.failure_counts, "trees": agg.counters.get("trees"), "exhaustive": false,
            "strace_cross_check": {"plans_compared": x_compared, "disagreements": x_disagree},
            "explanation": "old-or-new oracle per pre-existing note path, no new .md path, non-note files byte- and mtime-identical, leftovers tolerated only after a kill; legal non-failures must converge to the fault-free result"}),
        started,
    };
    if let Err(e) = runner::write_evidence(ev) {
        eprintln!("HARNESS-ERROR: {}", e);
        return 2;
    }
    println!("C19 {}: trees={} executions={} plans_fired={} violations={} wall={:.1}s", tier, agg.counters.get("trees").copied().unwrap_or(0), agg.runs, agg.distinct_nontrivial.len(), violations, started.elapsed().as_secs_f64());
    if violations > 0 {
        1
    } else {
        0
    }
}

pub fn replay(v: &Value, path: &str) -> i32 {
    crate::quiet_panics();
    let signature = v["signature"].as_str().unwrap_or("");
    let case: Case = match serde_json::from_value(v["case"].clone()) {
        Ok(c) => c,
        Err(e) => {
            eprintln!("HARNESS-ERROR: replay case does not parse: {}", e);
            return 2;
        }
    };
    let scratch = world_f::scratch_root();
    let _ = std::fs::create_dir_all(&scratch);
    let r = reproduces(&case, signature, &scratch);
    let _ = std::fs::remove_dir_all(&scratch);
    match r {
        Some(x) => {
            println!("VIOLATION property=C19 replay={}", path);
            println!("  reproduced: {} — {}", x.kind, x.detail);
            1
        }
        None => {
            println!("not reproduced: property=C19 signature={}", signature);
            0
        }
    }
}

pub fn selftest() -> i32 {
    // two executions of the same trees must produce the same verdicts and the same op traces
    let seed = runner::env_seed();
    let n = std::env::var("VERIF_RUNS").ok().and_then(|s| s.parse().ok()).unwrap_or(300u64);
    let a = runner::fan_out("F", "quick", seed, n, 4, &[]);
    let b = runner::fan_out("F", "quick", seed, n, 16, &[]);
    match (a, b) {
        (Ok(a), Ok(b)) => {
            let same = a.failure_counts == b.failure_counts && a.runs == b.runs && a.faults_fired == b.faults_fired && a.steps == b.steps;
            if !same {
                println!("  failure_counts equal: {}  runs equal: {}  faults equal: {}  steps equal: {} ({} vs {})", a.failure_counts == b.failure_counts, a.runs == b.runs, a.faults_fired == b.faults_fired, a.steps == b.steps, a.steps, b.steps);
            }
            println!("selftest F: trees={} executions={} vs {} identical verdicts/fault counts/op counts: {}", n, a.runs, b.runs, same);
            if same {
                0
            } else {
                2
            }
        }
        (a, b) => {
            eprintln!("HARNESS-ERROR: selftest: {:?} {:?}", a.err(), b.err());
            2
        }
    }
}
