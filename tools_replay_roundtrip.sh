#!/bin/bash
# usage: tools_replay_roundtrip.sh <patch> <prop> [runs] — with the patch: check finds a violation and its replay file reproduces it
# (exit 1) in a fresh process; without the patch the same replay file does not reproduce (exit 0).
P="$(realpath "$1")"; PROP="$2"; RUNS="${3:-3000}"
cd /repo || exit 2
git diff --quiet || { echo "repo dirty"; exit 2; }
git apply "$P" || exit 2
rm -rf /verif/target/rt-replays; 
( cd /verif && VERIF_RUNS=$RUNS VERIF_REPLAY_DIR=/verif/target/rt-replays VERIF_EVIDENCE_DIR=/verif/target/mutant-evidence ./check $PROP quick >/verif/target/rt.log 2>&1 )
f=$(ls /verif/target/rt-replays/*.json 2>/dev/null | head -1)
if [ -z "$f" ]; then echo "no replay file produced"; git checkout -- .; exit 1; fi
( cd /verif && ./check replay $f > /verif/target/rt-with.log 2>&1 ); with=$?
git -C /repo checkout -- .
( cd /verif && ./check replay $f > /verif/target/rt-without.log 2>&1 ); without=$?
echo "$PROP $(basename $f): replay exit with patch=$with (want 1), without patch=$without (want 0)"
grep -m1 VIOLATION /verif/target/rt-with.log | cut -c1-160
