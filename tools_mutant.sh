#!/bin/bash
# usage: tools_mutant.sh <patch.diff> <prop> [runs]   — apply patch to /repo, run the quick check, revert.
# prints the check's exit code; never leaves /repo modified.
P="$(realpath "$1")"; PROP="$2"; RUNS="${3:-}"
rm -rf /verif/target/mutant-replays; cd /repo || exit 2
if ! git diff --quiet; then echo "repo dirty, refusing"; exit 2; fi
git apply "$P" || { echo "patch does not apply"; exit 2; }
if [ -n "$RUNS" ]; then export VERIF_RUNS=$RUNS; fi
( cd /verif && VERIF_REPLAY_DIR=/verif/target/mutant-replays VERIF_EVIDENCE_DIR=/verif/target/mutant-evidence ./check "$PROP" quick ) > /verif/target/mutant.log 2>&1
rc=$?
git -C /repo checkout -- . 
git -C /repo clean -fdq -- crates 2>/dev/null
grep -E "^(VIOLATION|KNOWN-FINDING|HARNESS)" /verif/target/mutant.log | cut -c1-200 | head -5
tail -1 /verif/target/mutant.log | cut -c1-200
echo "exit=$rc"
