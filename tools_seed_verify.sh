#!/bin/bash
# usage: tools_seed_verify.sh <prop> <n> <demo-file> <dest: crate/tests/name.rs | sh>
# Confirms in the scratch worktree /tmp/wt-<prop>: patch applies, workspace builds, the 252 existing tests pass with
# the patch, the demonstration fails with the patch and passes without it. Leaves the worktree clean.
P=$1; N=$2; DEMO=$3; DEST=$4
WT=/tmp/wt-$P; D=/tmp/seed-out-$P/$N
export CARGO_NET_OFFLINE=true
cd $WT || exit 2
git checkout -q -- . && git clean -fdq
git apply $D/patch.diff || { echo "RESULT $P/$N patch-does-not-apply"; exit 1; }
suite=$(cargo test --workspace --no-fail-fast --offline 2>&1 | awk '/^test result/{p+=$4; f+=$6} END {print p"/"f}')
run_demo() {
  if [ "$DEST" = "wtsh" ]; then
    cp $D/$DEMO $WT/$DEMO
    ( cd $WT && timeout 900 sh $DEMO >/tmp/demo-$P-$N.log 2>&1 ); echo $?
  elif [ "$DEST" = "sh" ]; then
    cargo build -q --offline -p iwe 2>/dev/null
    bash $D/$DEMO $WT/target/debug/iwe >/tmp/demo-$P-$N.log 2>&1; echo $?
  else
    mkdir -p $(dirname $WT/$DEST); cp $D/$DEMO $WT/$DEST
    crate=$(echo $DEST | cut -d/ -f2); name=$(basename $DEST .rs)
    if [ -n "${PRE_BUILD:-}" ]; then ( cd $WT && eval "$PRE_BUILD" >/dev/null 2>&1 ); fi
    timeout 600 cargo test -p $crate --offline --test $name >/tmp/demo-$P-$N.log 2>&1; echo $?
  fi
}
with=$(run_demo)
git apply -R $D/patch.diff
without=$(run_demo)
git checkout -q -- . && git clean -fdq
echo "RESULT $P/$N suite_with_patch(pass/fail)=$suite demo_exit_with_patch=$with demo_exit_without_patch=$without"
